#![no_main]
//! Coverage-guided variant of the history checks: the fuzzer's bytes are decoded by a
//! hand-written byte cursor (mverif::fuzzdec) into the same Case type the proptest strategies produce; the same interpreter runs it with the
//! oracles of C01 C02 C03 C04 C05 C06 C08 C11 C12 C13 C15 switched on in-target. A violation aborts
//! (libFuzzer saves the input); FUZZ_PROP selects the oracle set, FUZZ_REPORT=1 prints the case.
use libfuzzer_sys::fuzz_target;
use mverif::props::{self, Case};
use mverif::world::Fail;
use std::sync::Once;

static INIT: Once = Once::new();

fn decode(data: &[u8], _cfg: &props::HistCfg) -> Option<Case> {
    Some(mverif::fuzzdec::decode_case(data))
}

fuzz_target!(|data: &[u8]| {
    INIT.call_once(|| {
        std::panic::set_hook(Box::new(|_| {}));
    });
    if data.len() < 16 {
        return;
    }
    // FUZZ_PROP selects one property's configuration and oracle set; default: a broad set
    let cfg = match std::env::var("FUZZ_PROP").ok().and_then(|p| props::hist_cfg(&p, false)) {
        Some(c) => c,
        None => {
            let mut c = props::hist_cfg("C01", false).unwrap();
            c.on = vec!["C01", "C02", "C03", "C04", "C05", "C06", "C08", "C11", "C12", "C13", "C15", "C19"];
            c
        }
    };
    let Some(mut case) = decode(data, &cfg) else { return };
    if !cfg.with_fin {
        case.fin = None;
    }
    let out = props::run_case(&cfg, &case);
    if let Err(f) = out.result {
        let msg = match f {
            Fail::Violation { prop, msg } => format!("VIOLATION property={} {}", prop, msg),
            Fail::Panic { op, msg } => format!("VIOLATION property=C08 operation {} aborted: {}", op, msg),
        };
        eprintln!("{}", msg);
        eprintln!("case: {}", serde_json::to_string(&case).unwrap_or_default());
        for l in out.log.iter().rev().take(12).rev() {
            eprintln!("  | {}", l);
        }
        std::process::abort();
    }
});
