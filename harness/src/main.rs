use mverif::*;

use runner::{Violation, WorkerResult};
use serde_json::{json, Value};
use std::collections::BTreeMap;
use std::io::Write;
use std::process::{Command, Stdio};
use std::time::Instant;

fn verif_root() -> String {
    std::env::var("VERIF_ROOT").unwrap_or_else(|_| "/verif".to_string())
}

fn arg_after(args: &[String], flag: &str) -> Option<String> {
    args.iter().position(|a| a == flag).and_then(|i| args.get(i + 1).cloned())
}

fn main() {
    let args: Vec<String> = std::env::args().collect();
    if args.len() < 3 && !matches!(args.get(1).map(|s| s.as_str()), Some("exec-case") | Some("plan")) {
        eprintln!("usage: mverif check <ID> [--tier quick|thorough] [--seed N] [--replay FILE] | mverif worker <ID> <part> --cases N --seed S --out FILE --tier T");
        std::process::exit(2);
    }
    match args[1].as_str() {
        "plan" => {
            // prints the parts of every check: name, shards x cases per shard, environment
            for tier in ["quick", "thorough"] {
                for k in 1..=19 {
                    let id = format!("C{:02}", k);
                    let parts: Vec<String> = parts::plan(&id, tier).iter().map(|p| format!("{} {}x{}{}", p.name, p.shards, p.cases, if p.env.is_empty() { String::new() } else { format!(" [{}]", p.env.iter().map(|(a, b)| format!("{}={}", a, b)).collect::<Vec<_>>().join(" ")) })).collect();
                    println!("{} {}: {}", tier, id, parts.join(" | "));
                }
            }
            std::process::exit(0);
        }
        "worker" => worker_main(&args),
        "exec-case" => {
            world::install_panic_hook();
            let mut input = Vec::new();
            use std::io::Read;
            std::io::stdin().read_to_end(&mut input).unwrap();
            let perm: Option<u64> = args.get(2).and_then(|s| s.parse().ok());
            let out = match serde_json::from_slice::<props::Case>(&input) {
                Ok(case) => match c18::exec_case(&case, perm) {
                    Ok(t) => json!({ "trace": t }),
                    Err(e) => json!({ "error": e }),
                },
                Err(e) => json!({"error": format!("bad case: {}", e)}),
            };
            println!("{}", out);
            std::process::exit(0);
        }
        "check" => check_main(&args),
        _ => {
            eprintln!("unknown command");
            std::process::exit(2)
        }
    }
}

// ------------------------------------------------------------------ worker

fn worker_main(args: &[String]) {
    let prop = args[2].clone();
    let part = args[3].clone();
    let cases: u32 = arg_after(args, "--cases").and_then(|s| s.parse().ok()).unwrap_or(10);
    let seed: u64 = arg_after(args, "--seed").and_then(|s| s.parse().ok()).unwrap_or(0);
    let shard: u64 = arg_after(args, "--shard").and_then(|s| s.parse().ok()).unwrap_or(0);
    let nshards: u64 = arg_after(args, "--nshards").and_then(|s| s.parse().ok()).unwrap_or(1);
    let tier = arg_after(args, "--tier").unwrap_or_else(|| "quick".into());
    let out = arg_after(args, "--out").unwrap_or_else(|| "/dev/stdout".into());
    world::install_panic_hook();
    parts::start_watchdog(&prop, &part, seed, &out);
    if part == "replay" {
        // replay one saved case under the watchdog
        let file = arg_after(args, "--file").unwrap_or_default();
        let mut r = WorkerResult { part: "replay".into(), evaluations: 1, ..Default::default() };
        if let Ok(b) = std::fs::read(&file) {
            if let Ok(v) = serde_json::from_slice::<Value>(&b) {
                let p = v.get("part").and_then(|x| x.as_str()).unwrap_or("hist").to_string();
                let case = v.get("case").cloned().unwrap_or(Value::Null);
                if let Ok(mut c) = runner::CURRENT_CASE.lock() {
                    *c = case.to_string();
                }
                if let Some((vp, msg, log)) = parts::replay_part(&prop, &p, &case) {
                    r.violation = Some(Violation { prop: vp, msg, case, log, part: p, seed: 0, kind: "replay".into() });
                }
            }
        }
        std::fs::write(&out, serde_json::to_vec(&r).unwrap()).unwrap();
        std::process::exit(0);
    }
    let r = parts::run_part(&prop, &part, &tier, cases, seed, shard, nshards);
    std::fs::write(&out, serde_json::to_vec(&r).unwrap()).unwrap();
    std::process::exit(0);
}

// ------------------------------------------------------------------ orchestrator

fn derive_seed(seed: u64, prop: &str, part: &str, shard: usize) -> u64 {
    let h = model::sha_hex(format!("{}|{}|{}|{}", seed, prop, part, shard).as_bytes());
    u64::from_str_radix(&h[..15], 16).unwrap()
}

struct Known {
    prop: String,
    sig: String,
    text: String,
}

fn known_findings() -> Vec<Known> {
    let mut v = vec![];
    if let Ok(s) = std::fs::read_to_string(format!("{}/known_findings.txt", verif_root())) {
        for line in s.lines() {
            let line = line.trim();
            if let Some(rest) = line.strip_prefix("known:") {
                // known: property=<id> sig="<substring of the violation message>" <free text>
                let prop = rest.split_whitespace().find_map(|t| t.strip_prefix("property=")).unwrap_or("").to_string();
                let sig = rest.split("sig=\"").nth(1).and_then(|x| x.split('"').next()).unwrap_or("").to_string();
                if !prop.is_empty() && !sig.is_empty() {
                    v.push(Known { prop, sig, text: rest.trim().to_string() });
                }
            }
        }
    }
    v
}

fn check_main(args: &[String]) {
    let prop = args[2].clone();
    let tier = arg_after(args, "--tier").or_else(|| std::env::var("VERIF_TIER").ok()).unwrap_or_else(|| "quick".into());
    let tier = if tier == "thorough" { "thorough".to_string() } else { "quick".to_string() };
    let seed: u64 = arg_after(args, "--seed").or_else(|| std::env::var("VERIF_SEED").ok()).and_then(|s| s.parse().ok()).unwrap_or(20260925);
    let t0 = Instant::now();
    world::install_panic_hook();
    let exe = std::env::current_exe().unwrap();
    let scratch = format!("{}/.scratch/{}", verif_root(), std::process::id());
    std::fs::create_dir_all(&scratch).unwrap();
    let known = known_findings();

    if let Some(file) = arg_after(args, "--replay") {
        let code = replay_file(&prop, &file, true);
        let _ = std::fs::remove_dir_all(&scratch);
        std::process::exit(code);
    }

    // 1. saved replays (regression tier)
    let mut replayed = 0;
    let mut violations: Vec<(Violation, String)> = vec![];
    let rdir = format!("{}/replays/{}", verif_root(), prop);
    if let Ok(rd) = std::fs::read_dir(&rdir) {
        let mut files: Vec<_> = rd.filter_map(|e| e.ok()).map(|e| e.path()).filter(|p| p.extension().map_or(false, |x| x == "json")).collect();
        files.sort();
        for f in files {
            replayed += 1;
            if let Some(v) = replay_case_file(&prop, f.to_str().unwrap()) {
                violations.push((v, f.to_str().unwrap().to_string()));
            }
        }
    }

    // 2. generated search, sharded over worker processes
    let plan = parts::plan(&prop, &tier);
    if plan.is_empty() {
        eprintln!("no check registered for {}", prop);
        std::process::exit(2);
    }
    let mut jobs: Vec<(String, usize, usize, u32, Vec<(String, String)>)> = vec![];
    for p in &plan {
        for s in 0..p.shards {
            jobs.push((p.name.to_string(), s, p.shards, p.cases, p.env.clone()));
        }
    }
    let max_par: usize = std::env::var("VERIF_JOBS").ok().and_then(|s| s.parse().ok()).unwrap_or(16);
    let mut merged: BTreeMap<String, WorkerResult> = BTreeMap::new();
    let mut inconclusive: Vec<String> = vec![];
    let mut running: Vec<(std::process::Child, String, String, usize, Instant)> = vec![];
    let mut queue = jobs.into_iter();
    let part_timeout = parts::timeout_s(&prop, &tier);
    loop {
        while running.len() < max_par {
            let Some((part, s, ns, cases, env)) = queue.next() else { break };
            let out = format!("{}/{}-{}-{}.json", scratch, prop, part, s);
            let mut cmd = Command::new(&exe);
            cmd.args(["worker", &prop, &part, "--cases", &cases.to_string(), "--seed", &derive_seed(seed, &prop, &part, s).to_string(), "--shard", &s.to_string(), "--nshards", &ns.to_string(), "--tier", &tier, "--out", &out]);
            cmd.env("RAYON_NUM_THREADS", "2");
            cmd.env_remove("MELDA_DATA_CACHE_CAP");
            cmd.env_remove("MELDA_ARRAYDESCRIPTORS_CACHE_CAP");
            cmd.env("VERIF_SCRATCH", &scratch);
            for (k, v) in &env {
                cmd.env(k, v);
            }
            cmd.stdout(Stdio::null()).stderr(Stdio::piped());
            let child = cmd.spawn().expect("spawn worker");
            running.push((child, out, part, s, Instant::now()));
        }
        if running.is_empty() {
            break;
        }
        let mut k = 0;
        let mut progressed = false;
        while k < running.len() {
            let done = running[k].0.try_wait().ok().flatten();
            if let Some(status) = done {
                let (mut child, out, part, s, _) = running.remove(k);
                progressed = true;
                let mut err = String::new();
                if let Some(mut e) = child.stderr.take() {
                    use std::io::Read;
                    let _ = e.read_to_string(&mut err);
                }
                match std::fs::read(&out).ok().and_then(|b| serde_json::from_slice::<WorkerResult>(&b).ok()) {
                    Some(r) => {
                        merged.entry(part.clone()).or_insert_with(|| WorkerResult { part: part.clone(), ..Default::default() }).merge(r);
                    }
                    None => inconclusive.push(format!("worker {}/{} ended with {:?} without a result: {}", part, s, status.code(), err.chars().take(400).collect::<String>())),
                }
            } else if running[k].4.elapsed().as_secs() > part_timeout {
                let (mut child, _, part, s, _) = running.remove(k);
                let _ = child.kill();
                let _ = child.wait();
                inconclusive.push(format!("worker {}/{} exceeded {} s and was stopped (inconclusive, not a violation)", part, s, part_timeout));
                progressed = true;
            } else {
                k += 1;
            }
        }
        if !progressed {
            std::thread::sleep(std::time::Duration::from_millis(20));
        }
    }

    // 3. violations -> replay files
    for (part, r) in &merged {
        if let Some(v) = &r.violation {
            let dir = format!("{}/replays/found/{}", verif_root(), prop);
            std::fs::create_dir_all(&dir).unwrap();
            let path = format!("{}/{}-{}-{}.json", dir, part, seed, &model::sha_hex(v.msg.as_bytes())[..8]);
            let mut f = std::fs::File::create(&path).unwrap();
            f.write_all(serde_json::to_string_pretty(&json!({"property": prop, "part": part, "seed": v.seed, "violated": v.prop, "message": v.msg, "kind": v.kind, "case": v.case, "log": v.log})).unwrap().as_bytes()).unwrap();
            violations.push((v.clone(), path));
        }
    }

    // 4. evidence
    let mut total = WorkerResult::default();
    let mut per_part = serde_json::Map::new();
    for (part, r) in &merged {
        per_part.insert(
            part.clone(),
            json!({"evaluations": r.evaluations, "distinct_nontrivial": r.nontrivial_hashes.len() as u64 + r.nontrivial_count, "aborted_cases": r.aborted, "steps": r.steps, "counters": r.counters, "cases_with": r.cases_with, "exhaustive": r.exhaustive, "notes": r.notes}),
        );
        let mut c = r.clone();
        c.violation = None;
        total.merge(c);
    }
    let (level, assumptions) = parts::level(&prop);
    let mut known_hits = vec![];
    let mut real = vec![];
    for (v, path) in &violations {
        if let Some(k) = known.iter().find(|k| k.prop == v.prop && v.msg.contains(&k.sig)) {
            known_hits.push(k.text.clone());
        } else {
            real.push((v.clone(), path.clone()));
        }
    }
    let wall = t0.elapsed().as_secs_f64();
    let all_exhaustive = !merged.is_empty() && merged.values().all(|r| r.exhaustive);
    let ev = json!({
        "property_id": prop,
        "tier": tier,
        "seed": seed,
        "level": level,
        "coverage": {
            "evaluations": total.evaluations,
            "distinct_nontrivial": total.nontrivial_hashes.len() as u64 + total.nontrivial_count,
            "rule": parts::rule(&prop, &tier),
            "samples": total.samples,
            "exhaustive": all_exhaustive,
            "parts": per_part,
            "replayed_regression_cases": replayed,
            "aborted_cases": total.aborted,
            "inconclusive": inconclusive,
            "known_findings_hit": known_hits,
        },
        "assumptions": assumptions,
        "wall_s": wall,
        "violations": real.len(),
    });
    std::fs::create_dir_all(format!("{}/evidence", verif_root())).unwrap();
    std::fs::write(format!("{}/evidence/{}.json", verif_root(), prop), serde_json::to_string_pretty(&ev).unwrap()).unwrap();
    let _ = std::fs::remove_dir_all(&scratch);

    for k in &known_hits {
        println!("KNOWN-FINDING: {}", k);
    }
    println!(
        "{} {}: evaluations={} distinct_nontrivial={} aborted={} replayed={} wall={:.1}s",
        prop,
        tier,
        total.evaluations,
        total.nontrivial_hashes.len() as u64 + total.nontrivial_count,
        total.aborted,
        replayed,
        wall
    );
    for (part, r) in &merged {
        println!("  part {}: evaluations={} nontrivial={} steps={}{}", part, r.evaluations, r.nontrivial_hashes.len() as u64 + r.nontrivial_count, r.steps, if r.exhaustive { " (exhaustive)" } else { "" });
    }
    if !real.is_empty() {
        for (v, path) in &real {
            println!("VIOLATION property={} replay={}", v.prop, path);
            println!("  {}", v.msg.chars().take(1500).collect::<String>());
        }
        std::process::exit(1);
    }
    if !inconclusive.is_empty() {
        for i in &inconclusive {
            println!("INCONCLUSIVE: {}", i);
        }
        if total.evaluations == 0 {
            std::process::exit(2);
        }
    }
    if total.evaluations == 0 {
        println!("INCONCLUSIVE: no case was evaluated");
        std::process::exit(2);
    }
    std::process::exit(0);
}

fn replay_case_file(prop: &str, file: &str) -> Option<Violation> {
    // in a worker process, so that a replay that hangs is caught by the watchdog
    let exe = std::env::current_exe().ok()?;
    let out = format!("{}/.scratch/replay-{}-{}.json", verif_root(), std::process::id(), model::sha_hex(file.as_bytes())[..8].to_string());
    let _ = std::fs::create_dir_all(format!("{}/.scratch", verif_root()));
    let st = Command::new(&exe).args(["worker", prop, "replay", "--file", file, "--out", &out]).env("RAYON_NUM_THREADS", "2").stdout(Stdio::null()).stderr(Stdio::null()).status().ok()?;
    let r: Option<WorkerResult> = std::fs::read(&out).ok().and_then(|b| serde_json::from_slice(&b).ok());
    let _ = std::fs::remove_file(&out);
    let _ = st;
    let mut v = r?.violation?;
    if v.case.is_null() {
        v.case = serde_json::from_slice::<Value>(&std::fs::read(file).ok()?).ok()?.get("case").cloned().unwrap_or(Value::Null);
    }
    Some(v)
}

fn replay_file(prop: &str, file: &str, verbose: bool) -> i32 {
    match replay_case_file(prop, file) {
        Some(v) => {
            if verbose {
                for l in &v.log {
                    println!("  | {}", l);
                }
            }
            println!("VIOLATION property={} replay={}", v.prop, file);
            println!("  {}", v.msg);
            1
        }
        None => {
            println!("replay {}: no violation", file);
            0
        }
    }
}
