//! Unit-level parts that drive internal functions through the verif-hooks re-exports:
//! exhaustive enumerations (merge_arrays, diff/patch, small revision trees) and generated
//! revision trees / revision chains.
use crate::model::{self, Recs};
use crate::runner::{CaseRes, WorkerResult};
use crate::store::permute;
use crate::world::{Counters, Fail};
use melda::verif_hooks::{apply_diff_patch, make_diff_patch, merge_arrays, Revision, RevisionTree};
use proptest::collection::vec;
use proptest::prelude::*;
use serde::{Deserialize, Serialize};
use serde_json::{json, Value};
use std::collections::BTreeSet;

fn vfail(prop: &'static str, msg: String) -> Result<(), Fail> {
    Err(Fail::Violation { prop, msg })
}

/// all duplicate-free sequences over 0..k with length <= l
fn dupfree_seqs(k: usize, l: usize) -> Vec<Vec<u8>> {
    let mut out = vec![vec![]];
    let mut frontier: Vec<Vec<u8>> = vec![vec![]];
    for _ in 0..l {
        let mut next = vec![];
        for s in &frontier {
            for c in 0..k as u8 {
                if !s.contains(&c) {
                    let mut t = s.clone();
                    t.push(c);
                    next.push(t);
                }
            }
        }
        out.extend(next.iter().cloned());
        frontier = next;
    }
    out
}

/// all sequences (repeats allowed) over 0..k with length <= l
fn all_seqs(k: usize, l: usize) -> Vec<Vec<u8>> {
    let mut out = vec![vec![]];
    let mut frontier: Vec<Vec<u8>> = vec![vec![]];
    for _ in 0..l {
        let mut next = vec![];
        for s in &frontier {
            for c in 0..k as u8 {
                let mut t = s.clone();
                t.push(c);
                next.push(t);
            }
        }
        out.extend(next.iter().cloned());
        frontier = next;
    }
    out
}

fn vals(s: &[u8]) -> Vec<Value> {
    s.iter().map(|c| Value::from(((b'a' + c) as char).to_string())).collect()
}

fn check_merge(m: &[u8], n: &[u8]) -> Result<bool, String> {
    let vm = vals(m);
    let mut vn = vals(n);
    merge_arrays(&vm, &mut vn);
    let out: Vec<u8> = vn.iter().map(|v| v.as_str().unwrap().as_bytes()[0] - b'a').collect();
    let want: BTreeSet<u8> = m.iter().chain(n.iter()).cloned().collect();
    let got: BTreeSet<u8> = out.iter().cloned().collect();
    if got != want || out.len() != want.len() {
        return Err(format!("merge of {:?} into {:?} = {:?}: not the union with each element once", m, n, out));
    }
    if !model::keeps_relative_order(n, &out) {
        return Err(format!("merge of {:?} into {:?} = {:?}: base order not kept", m, n, out));
    }
    let agree = model::agree_on_common(m, n);
    if agree && !model::keeps_relative_order(m, &out) {
        return Err(format!("merge of {:?} into {:?} = {:?}: versions agree on common elements but the other order is not kept", m, n, out));
    }
    // non-trivial: both contribute an element the other lacks, or they disagree on order
    let m_only = m.iter().any(|x| !n.contains(x));
    let n_only = n.iter().any(|x| !m.contains(x));
    Ok((m_only && n_only) || !agree)
}

pub fn merge_exhaustive(thorough: bool, shard: u64, nshards: u64) -> WorkerResult {
    let (k, l) = if thorough { (7, 6) } else { (6, 6) };
    let seqs = dupfree_seqs(k, l);
    let mut r = WorkerResult { part: "merge-exhaustive".into(), exhaustive: true, ..Default::default() };
    'outer: for (i, m) in seqs.iter().enumerate() {
        if i as u64 % nshards != shard {
            continue;
        }
        for n in &seqs {
            r.evaluations += 1;
            match check_merge(m, n) {
                Ok(nt) => {
                    if nt {
                        r.nontrivial_count += 1;
                        if r.samples.len() < 2 && (r.nontrivial_count % 9973 == 1) {
                            r.samples.push(json!({"other": vals(m), "base": vals(n)}));
                        }
                    }
                }
                Err(e) => {
                    r.violation = Some(crate::runner::Violation { prop: "C06".into(), msg: e, case: json!({"other": m, "base": n}), part: "merge-exhaustive".into(), kind: "oracle".into(), ..Default::default() });
                    break 'outer;
                }
            }
        }
        // self merge is the identity
        let mut x = vals(m);
        merge_arrays(&vals(m), &mut x);
        if x != vals(m) {
            r.violation = Some(crate::runner::Violation { prop: "C06".into(), msg: format!("merging {:?} into itself gives {:?}", m, x), case: json!({"other": m, "base": m}), part: "merge-exhaustive".into(), kind: "oracle".into(), ..Default::default() });
            break;
        }
    }
    // triples folded onto a base
    let (k3, l3) = if thorough { (6, 4) } else { (5, 4) };
    let s3 = dupfree_seqs(k3, l3);
    let mut triples = 0u64;
    if r.violation.is_none() {
        'o3: for (i, a) in s3.iter().enumerate() {
            if i as u64 % nshards != shard {
                continue;
            }
            for b in &s3 {
                for base in &s3 {
                    triples += 1;
                    let mut out = vals(base);
                    merge_arrays(&vals(a), &mut out);
                    merge_arrays(&vals(b), &mut out);
                    let o: Vec<u8> = out.iter().map(|v| v.as_str().unwrap().as_bytes()[0] - b'a').collect();
                    let want: BTreeSet<u8> = a.iter().chain(b.iter()).chain(base.iter()).cloned().collect();
                    let got: BTreeSet<u8> = o.iter().cloned().collect();
                    if got != want || o.len() != want.len() || !model::keeps_relative_order(base, &o) {
                        r.violation = Some(crate::runner::Violation { prop: "C06".into(), msg: format!("folding {:?} and {:?} onto base {:?} gives {:?}: union-once or base order broken", a, b, base, o), case: json!({"a": a, "b": b, "base": base}), part: "merge-exhaustive".into(), kind: "oracle".into(), ..Default::default() });
                        break 'o3;
                    }
                }
            }
        }
    }
    r.evaluations += triples;
    r.counters.insert("merge_triples".into(), triples);
    r.notes.push(format!("pairs: all ordered pairs of duplicate-free sequences over {} symbols, length <= {}; triples over {} symbols, length <= {}", k, l, k3, l3));
    r
}

pub fn diff_exhaustive(thorough: bool, shard: u64, nshards: u64) -> WorkerResult {
    let (k, l) = if thorough { (4, 7) } else { (4, 6) };
    let seqs = all_seqs(k, l);
    let vs: Vec<Vec<Value>> = seqs.iter().map(|s| vals(s)).collect();
    let mut r = WorkerResult { part: "diff-exhaustive".into(), exhaustive: true, ..Default::default() };
    'outer: for (i, a) in vs.iter().enumerate() {
        if i as u64 % nshards != shard {
            continue;
        }
        for (j, b) in vs.iter().enumerate() {
            r.evaluations += 1;
            let fail = |msg: String| crate::runner::Violation { prop: "C16".into(), msg, case: json!({"old": a, "new": b}), part: "diff-exhaustive".into(), kind: "oracle".into(), ..Default::default() };
            let patch = match make_diff_patch(a, b) {
                Ok(p) => p,
                Err(e) => {
                    r.violation = Some(fail(format!("make_diff_patch failed: {}", e)));
                    break 'outer;
                }
            };
            if patch.is_empty() != (i == j) {
                r.violation = Some(fail(format!("edit script {:?} is empty iff arrays are equal violated", patch)));
                break 'outer;
            }
            let mut x = a.clone();
            let ok = apply_diff_patch(&mut x, &patch).is_ok();
            if !ok || &x != b {
                r.violation = Some(fail(format!("applying the script {:?} to the old array gives {:?}", patch, x)));
                break 'outer;
            }
            // through JSON text, and with the reference applier
            let text = serde_json::to_string(&patch).unwrap();
            let back: Vec<Value> = serde_json::from_str(&text).unwrap();
            let mut y = a.clone();
            if model::ref_apply(&mut y, &back).is_err() || &y != b {
                r.violation = Some(fail(format!("the script {} re-parsed and applied by the reference applier gives {:?}", text, y)));
                break 'outer;
            }
            if patch.len() >= 2 {
                r.nontrivial_count += 1;
                if r.samples.len() < 2 && r.nontrivial_count % 7919 == 1 {
                    r.samples.push(json!({"old": a, "new": b, "script": patch}));
                }
            }
        }
    }
    r.notes.push(format!("all ordered pairs of sequences (repeats allowed) over {} symbols, length <= {}; non-trivial = script with >= 2 operations", k, l));
    r
}

// ------------------------------------------------------------------ revision trees

#[derive(Clone, Debug, Serialize, Deserialize)]
pub enum NodeKind {
    Update(u8),
    Delete,
    Marker,
}

#[derive(Clone, Debug, Serialize, Deserialize)]
pub enum ParentSel {
    Root,
    Node(u16),
    Dangling { idx: u16, d: u8 },
}

#[derive(Clone, Debug, Serialize, Deserialize)]
pub struct TreeCase {
    pub nodes: Vec<(ParentSel, NodeKind, u8)>, // (parent, kind, chain extension length)
    pub orders: Vec<u64>,
}

fn digest_of(d: u8) -> String {
    // a few digests are made prefix-related to the special digests "d" / "e" / "r" (a content hash may
    // well start with "d4..."): the byte-wise order of whole identifiers then differs from field-wise orders
    let h = model::sha_hex(&[d]);
    match d % 8 {
        5 => format!("d{}{}", d % 10, &h[2..]),
        6 => format!("e{}{}", d % 10, &h[2..]),
        7 => format!("dA{}", &h[2..]),
        _ => h,
    }
}

/// build (revision, parent) pairs with the reference identifier rule
pub fn build_tree(nodes: &[(ParentSel, NodeKind, u8)]) -> Vec<(String, Option<String>)> {
    let mut out: Vec<(String, Option<String>)> = vec![];
    for (ps, kind, ext) in nodes {
        let parent: Option<String> = match ps {
            ParentSel::Root => None,
            ParentSel::Node(s) => {
                if out.is_empty() {
                    None
                } else {
                    Some(out[crate::gen::sel(*s, out.len())].0.clone())
                }
            }
            ParentSel::Dangling { idx, d } => Some(if *idx <= 1 {
                format!("1-{}", digest_of(*d))
            } else {
                format!("{}-{}_{}", idx, digest_of(*d), &model::sha_hex(&[*d, 1])[..7])
            }),
        };
        let digest = match kind {
            NodeKind::Update(d) => digest_of(*d),
            NodeKind::Delete => "d".to_string(),
            NodeKind::Marker => "r".to_string(),
        };
        if parent.is_none() && digest.len() < 2 {
            // a creation revision carries a content digest
            out.push((model::child_rev(&digest_of(7), None), None));
            continue;
        }
        let mut cur = model::child_rev(&digest, parent.as_deref());
        out.push((cur.clone(), parent));
        // optional chain of further updates (crosses decimal boundaries)
        if !matches!(kind, NodeKind::Marker) {
            for k in 0..*ext {
                let nx = model::child_rev(&digest_of(k.wrapping_mul(3)), Some(&cur));
                out.push((nx.clone(), Some(cur.clone())));
                cur = nx;
            }
        }
    }
    out
}

fn check_tree(pairs: &[(String, Option<String>)], order_seeds: &[u64], cnt: &mut Counters) -> Result<bool, String> {
    let mut recs = Recs::new();
    for (r, p) in pairs {
        recs.entry(r.clone()).or_insert_with(|| p.clone());
    }
    let want = model::live_leaves(&recs);
    let want_w = want.last().cloned();
    let uniq: Vec<(String, Option<String>)> = recs.iter().map(|(r, p)| (r.clone(), p.clone())).collect();
    for (oi, seed) in order_seeds.iter().enumerate() {
        let mut o = uniq.clone();
        permute(&mut o, *seed);
        let mut t = RevisionTree::new();
        for (r, p) in &o {
            let rv = Revision::from(r).map_err(|e| e.to_string())?;
            let pv = match p {
                Some(p) => Some(Revision::from(p).map_err(|e| e.to_string())?),
                None => None,
            };
            if oi % 2 == 0 {
                t.add(rv, pv, false);
            } else {
                t.unvalidated_add(rv, pv, oi % 4 == 1);
            }
        }
        if oi % 2 == 1 {
            t.validate();
        }
        let got: Vec<String> = t.get_leafs().iter().map(|r| r.to_string()).collect();
        let got_w = t.get_winner().map(|r| r.to_string());
        let mut g2 = got.clone();
        g2.sort_by(|a, b| model::ref_cmp(a, b));
        if got != g2 {
            return Err(format!("leaf set iteration order {:?} is not the fixed total order {:?}", got, g2));
        }
        if got != want {
            return Err(format!("live leaves: reference {:?}, tree {:?} (insertion order #{} of {:?})", want, got, oi, o));
        }
        if got_w != want_w {
            return Err(format!("winner: reference {:?}, tree {:?} (insertion order #{} of {:?})", want_w, got_w, oi, o));
        }
    }
    let dangling = recs.values().any(|p| p.as_ref().map_or(false, |p| !recs.contains_key(p)));
    let marker = recs.keys().any(|r| model::rev_is_marker(r));
    let big = recs.keys().any(|r| model::rev_idx(r) >= 10);
    if dangling {
        *cnt.entry("trees_with_dangling_parent").or_insert(0) += 1;
    }
    if marker {
        *cnt.entry("trees_with_marker").or_insert(0) += 1;
    }
    if big {
        *cnt.entry("trees_with_index_ge_10").or_insert(0) += 1;
    }
    Ok(want.len() >= 2 && (dangling || marker || big))
}

pub fn tree_strategy() -> BoxedStrategy<TreeCase> {
    let parent = prop_oneof![
        2 => Just(ParentSel::Root),
        8 => any::<u16>().prop_map(ParentSel::Node),
        1 => (1u16..14, 0u8..4).prop_map(|(idx, d)| ParentSel::Dangling { idx, d }),
    ];
    let kind = prop_oneof![6 => (0u8..16).prop_map(NodeKind::Update), 2 => Just(NodeKind::Delete), 2 => Just(NodeKind::Marker)];
    let ext = prop_oneof![8 => Just(0u8), 2 => 1u8..4, 1 => 8u8..14, 1 => 95u8..110];
    (vec((parent, kind, ext), 1..14), vec(any::<u64>(), 2..7)).prop_map(|(nodes, orders)| TreeCase { nodes, orders }).boxed()
}

pub fn run_tree(c: &TreeCase) -> CaseRes {
    let pairs = build_tree(&c.nodes);
    let mut cnt = Counters::new();
    match check_tree(&pairs, &c.orders, &mut cnt) {
        Ok(nt) => CaseRes { counters: cnt, nontrivial: nt, result: Ok(()), log: vec![], steps: pairs.len() },
        Err(e) => CaseRes { counters: cnt, nontrivial: false, result: vfail("C05", e), log: pairs.iter().map(|(r, p)| format!("{} <- {:?}", r, p)).collect(), steps: pairs.len() },
    }
}

/// every tree shape with <= n nodes x every insertion order
pub fn tree_exhaustive(thorough: bool, shard: u64, nshards: u64) -> WorkerResult {
    let n = if thorough { 5 } else { 4 };
    let mut r = WorkerResult { part: "tree-exhaustive".into(), exhaustive: true, ..Default::default() };
    // all permutations of 0..n as seeds is not possible with permute(); enumerate orders explicitly
    fn perms(n: usize) -> Vec<Vec<usize>> {
        if n == 0 {
            return vec![vec![]];
        }
        let mut out = vec![];
        for p in perms(n - 1) {
            for i in 0..=p.len() {
                let mut q = p.clone();
                q.insert(i, n - 1);
                out.push(q);
            }
        }
        out
    }
    let mut shape_no = 0u64;
    // parent choice for node k: 0 = root, 1 = dangling, 2+j = node j ; kind: 0 update(parity digest), 1 delete, 2 marker
    let mut stack: Vec<(Vec<usize>, Vec<usize>)> = vec![(vec![], vec![])];
    let mut shapes: Vec<(Vec<usize>, Vec<usize>)> = vec![];
    while let Some((ps, ks)) = stack.pop() {
        if !ps.is_empty() {
            shapes.push((ps.clone(), ks.clone()));
        }
        if ps.len() == n {
            continue;
        }
        let k = ps.len();
        for p in 0..(k + 2) {
            for kind in 0..3 {
                let mut a = ps.clone();
                a.push(p);
                let mut b = ks.clone();
                b.push(kind);
                stack.push((a, b));
            }
        }
    }
    let mut cnt = Counters::new();
    'outer: for (ps, ks) in &shapes {
        shape_no += 1;
        if shape_no % nshards != shard {
            continue;
        }
        // build
        let mut pairs: Vec<(String, Option<String>)> = vec![];
        for (k, (&p, &kind)) in ps.iter().zip(ks.iter()).enumerate() {
            let parent = match p {
                0 => None,
                1 => Some(format!("{}-{}_{}", 2 + k, digest_of(200), "abcdef0")),
                j => Some(pairs[j - 2].0.clone()),
            };
            let digest = match kind {
                0 => digest_of((k % 2) as u8),
                1 => "d".to_string(),
                _ => "r".to_string(),
            };
            let digest = if parent.is_none() && digest.len() < 2 { digest_of(9) } else { digest };
            pairs.push((model::child_rev(&digest, parent.as_deref()), parent));
        }
        let mut recs = Recs::new();
        for (r0, p) in &pairs {
            recs.entry(r0.clone()).or_insert_with(|| p.clone());
        }
        let uniq: Vec<(String, Option<String>)> = recs.iter().map(|(a, b)| (a.clone(), b.clone())).collect();
        let want = model::live_leaves(&recs);
        for order in perms(uniq.len()) {
            r.evaluations += 1;
            let mut t = RevisionTree::new();
            for &i in &order {
                let (rv, pv) = &uniq[i];
                t.add(Revision::from(rv).unwrap(), pv.as_ref().map(|p| Revision::from(p).unwrap()), false);
            }
            let got: Vec<String> = t.get_leafs().iter().map(|x| x.to_string()).collect();
            let gw = t.get_winner().map(|x| x.to_string());
            if got != want || gw != want.last().cloned() {
                r.violation = Some(crate::runner::Violation { prop: "C05".into(), msg: format!("tree {:?} inserted in order {:?}: leaves {:?} winner {:?}, reference leaves {:?}", uniq, order, got, gw, want), case: json!({"pairs": uniq, "order": order}), part: "tree-exhaustive".into(), kind: "oracle".into(), ..Default::default() });
                break 'outer;
            }
        }
        let dangling = recs.values().any(|p| p.as_ref().map_or(false, |p| !recs.contains_key(p)));
        let marker = recs.keys().any(|x| model::rev_is_marker(x));
        if want.len() >= 2 && (dangling || marker) {
            r.nontrivial_count += 1;
            if r.samples.len() < 2 && r.nontrivial_count % 997 == 1 {
                r.samples.push(json!({"revisions": uniq}));
            }
        }
        let _ = &mut cnt;
    }
    r.notes.push(format!("every tree shape with <= {} nodes (parent: creation / dangling / any earlier node; kind: update / deletion / marker) x every insertion order; non-trivial = >=2 live leaves with a dangling parent or a marker", n));
    r
}

// ------------------------------------------------------------------ revision identifiers (C19)

#[derive(Clone, Debug, Serialize, Deserialize)]
pub struct RevCase {
    /// chain steps: (kind 0 update / 1 delete / 2 marker, content byte), applied to a growing pool
    pub steps: Vec<(u16, u8, u8)>,
    pub long_chain: u16,
    pub triples: Vec<(u16, u16, u16)>,
}

pub fn rev_strategy() -> BoxedStrategy<RevCase> {
    (
        vec((any::<u16>(), 0u8..3, 0u8..16), 1..24),
        prop_oneof![6 => Just(0u16), 2 => 8u16..12, 1 => 98u16..102, 1 => 998u16..1003],
        vec((any::<u16>(), any::<u16>(), any::<u16>()), 1..30),
    )
        .prop_map(|(steps, long_chain, triples)| RevCase { steps, long_chain, triples })
        .boxed()
}

fn hash_of(r: &Revision) -> u64 {
    use std::hash::{Hash, Hasher};
    let mut h = std::collections::hash_map::DefaultHasher::new();
    r.hash(&mut h);
    h.finish()
}

pub fn run_rev(c: &RevCase) -> CaseRes {
    let mut cnt = Counters::new();
    let r = (|| -> Result<bool, String> {
        // pool of (melda revision, reference string)
        let mut pool: Vec<(Revision, String)> = vec![];
        for d in [0u8, 1, 5, 6] {
            let dg = digest_of(d);
            let r1 = Revision::new(1, dg.clone(), None);
            pool.push((r1, model::child_rev(&dg, None)));
        }
        let mut add = |pool: &mut Vec<(Revision, String)>, parent: usize, kind: u8, d: u8| -> Result<(), String> {
            let (p, ps) = pool[parent].clone();
            let dg = digest_of(d);
            let (r, digest) = match kind {
                0 => (Revision::new_updated(dg.clone(), &p), dg.clone()),
                1 => (Revision::new_deleted(&p), "d".to_string()),
                _ => (Revision::new_resolved(&p), "r".to_string()),
            };
            // construction is pure
            let again = match kind {
                0 => Revision::new_updated(dg.clone(), &p),
                1 => Revision::new_deleted(&p),
                _ => Revision::new_resolved(&p),
            };
            if r != again || r.to_string() != again.to_string() || hash_of(&r) != hash_of(&again) {
                return Err(format!("constructing the same revision twice gives {} and {}", r, again));
            }
            let via_new = Revision::new(p.index() + 1, digest.clone(), Some(&p));
            if via_new != r || via_new.to_string() != r.to_string() {
                return Err(format!("new_updated/new_deleted/new_resolved {} differs from new(index+1, digest, parent) {}", r, via_new));
            }
            // identifier = pure function of (content digest, parent identifier): equals the reference rule
            let want = model::child_rev(&digest, Some(&ps));
            if r.to_string() != want {
                return Err(format!("identifier {} is not the reference function of digest {} and parent {} (= {})", r, digest, ps, want));
            }
            pool.push((r, want));
            Ok(())
        };
        for (s, kind, d) in &c.steps {
            let parent = crate::gen::sel(*s, pool.len());
            if model::rev_is_marker(&pool[parent].1) {
                continue; // the system never extends a marker
            }
            add(&mut pool, parent, *kind, *d)?;
        }
        if c.long_chain > 0 {
            let mut cur = 0usize;
            for k in 0..c.long_chain {
                add(&mut pool, cur, 0, (k % 7) as u8)?;
                cur = pool.len() - 1;
            }
            *cnt.entry("chains_crossing_decimal_boundary").or_insert(0) += 1;
        }
        // different digest => different revision (same parent)
        for i in 0..pool.len() {
            let back = Revision::from(&pool[i].1).map_err(|e| e.to_string())?;
            if back != pool[i].0 || back.to_string() != pool[i].1 || hash_of(&back) != hash_of(&pool[i].0) {
                return Err(format!("{} parses back to {} (equal: {}, same hash: {})", pool[i].1, back, back == pool[i].0, hash_of(&back) == hash_of(&pool[i].0)));
            }
        }
        let mut mixed = false;
        for (a, b, cc) in &c.triples {
            let (x, y, z) = (crate::gen::sel(*a, pool.len()), crate::gen::sel(*b, pool.len()), crate::gen::sel(*cc, pool.len()));
            let (rx, ry, rz) = (&pool[x].0, &pool[y].0, &pool[z].0);
            let (sx, sy, sz) = (&pool[x].1, &pool[y].1, &pool[z].1);
            use std::cmp::Ordering::*;
            let cxy = rx.cmp(ry);
            if cxy != model::ref_cmp(sx, sy) {
                return Err(format!("cmp({}, {}) = {:?}, the fixed total order says {:?}", sx, sy, cxy, model::ref_cmp(sx, sy)));
            }
            if cxy != ry.cmp(rx).reverse() {
                return Err(format!("cmp not antisymmetric on {} / {}", sx, sy));
            }
            if (cxy == Equal) != (rx == ry) || (rx == ry) != (sx == sy) {
                return Err(format!("cmp == Equal, == and textual identity disagree on {} / {}", sx, sy));
            }
            if rx == ry && hash_of(rx) != hash_of(ry) {
                return Err(format!("equal revisions {} / {} hash differently", sx, sy));
            }
            let cyz = ry.cmp(rz);
            if cxy != Greater && cyz != Greater && rx.cmp(rz) == Greater {
                return Err(format!("cmp not transitive on {} <= {} <= {}", sx, sy, sz));
            }
            let kinds: BTreeSet<&str> = [sx, sy, sz].iter().map(|s| model::rev_digest(s)).map(|d| if d == "r" { "r" } else if d == "d" { "d" } else { "u" }).collect();
            if kinds.len() == 3 {
                mixed = true;
            }
        }
        Ok(mixed || c.long_chain > 0)
    })();
    match r {
        Ok(nt) => CaseRes { counters: cnt, nontrivial: nt, result: Ok(()), log: vec![], steps: c.steps.len() + c.triples.len() },
        Err(e) => CaseRes { counters: cnt, nontrivial: false, result: vfail("C19", e), log: vec![], steps: 0 },
    }
}

// ------------------------------------------------------------------ large generated diffs (C16)

#[derive(Clone, Debug, Serialize, Deserialize)]
pub struct BigDiffCase {
    pub len: u16,
    pub alphabet: u16,
    pub seed: u64,
    /// edits applied to the old array to obtain the new one: (kind, position selector, value selector)
    pub edits: Vec<(u8, u16, u16)>,
    pub independent: bool,
}

pub fn bigdiff_strategy() -> BoxedStrategy<BigDiffCase> {
    (prop_oneof![1 => 0u16..40, 3 => 90u16..320], prop_oneof![1 => 3u16..8, 2 => 300u16..600], any::<u64>(), vec((0u8..4, any::<u16>(), any::<u16>()), 0..12), prop::bool::weighted(0.15))
        .prop_map(|(len, alphabet, seed, edits, independent)| BigDiffCase { len, alphabet, seed, edits, independent })
        .boxed()
}

pub fn run_bigdiff(c: &BigDiffCase) -> CaseRes {
    let mut s = c.seed;
    let mk = |s: &mut u64, n: usize| -> Vec<Value> { (0..n).map(|_| Value::from(format!("x{}", crate::store::splitmix(s) % c.alphabet.max(1) as u64))).collect() };
    let a = mk(&mut s, c.len as usize);
    let mut b = if c.independent { mk(&mut s, (c.len as usize * 7) / 8 + 3) } else { a.clone() };
    for (k, p, v) in &c.edits {
        match k {
            0 => {
                let at = crate::gen::sel(*p, b.len() + 1);
                b.insert(at, Value::from(format!("x{}", v % c.alphabet.max(1))));
            }
            1 => {
                if !b.is_empty() {
                    let at = crate::gen::sel(*p, b.len());
                    b.remove(at);
                }
            }
            2 => {
                if b.len() > 1 {
                    let from = crate::gen::sel(*p, b.len());
                    let e = b.remove(from);
                    let to = crate::gen::sel(*v, b.len() + 1);
                    b.insert(to, e);
                }
            }
            _ => {
                if !b.is_empty() {
                    let at = crate::gen::sel(*p, b.len());
                    let n = (1 + (*v as usize % 5)).min(b.len() - at);
                    b.drain(at..at + n);
                }
            }
        }
    }
    let res = (|| -> Result<(), String> {
        let patch = make_diff_patch(&a, &b).map_err(|e| e.to_string())?;
        if patch.is_empty() != (a == b) {
            return Err(format!("script empty = {} but arrays equal = {}", patch.is_empty(), a == b));
        }
        let mut x = a.clone();
        apply_diff_patch(&mut x, &patch).map_err(|e| e.to_string())?;
        if x != b {
            return Err(format!("arrays of length {} -> {}: applying the script ({} ops) does not give the new array (first difference at {:?})", a.len(), b.len(), patch.len(), x.iter().zip(b.iter()).position(|(p, q)| p != q)));
        }
        let mut y = a.clone();
        model::ref_apply(&mut y, &patch)?;
        if y != b {
            return Err("reference applier disagrees".into());
        }
        Ok(())
    })();
    let nontrivial = a.len() >= 100 && b.len() >= 100 && a != b;
    match res {
        Ok(()) => CaseRes { counters: Counters::new(), nontrivial, result: Ok(()), log: vec![], steps: 1 },
        Err(e) => CaseRes { counters: Counters::new(), nontrivial: false, result: vfail("C16", e), log: vec![format!("old {:?}", a), format!("new {:?}", b)], steps: 1 },
    }
}
