//! More operations (resolve, stage handling, snapshot, time travel, low-level calls) and the
//! final delivery / convergence phase.
use crate::gen::{self, J};
use crate::inv;
use crate::model;
use crate::world::*;
use serde::{Deserialize, Serialize};
use serde_json::Value;
use std::collections::BTreeSet;

fn canon_stage(s: &Option<Value>) -> String {
    match s {
        None => "none".into(),
        Some(v) => {
            let mut v = v.clone();
            if let Some(c) = v.get_mut("c").and_then(|c| c.as_array_mut()) {
                c.sort_by_key(|x| x.to_string());
            }
            v.to_string()
        }
    }
}

fn shown_ids(doc: &Value) -> BTreeSet<String> {
    let mut tr = vec![];
    model::collect_tracked(doc, &mut vec![], &mut tr);
    tr.into_iter().map(|(i, _)| i).collect()
}

fn array_ids(doc: &Value, au: &str) -> Option<Vec<String>> {
    let mut arrs = vec![];
    model::doc_arrays(doc, &mut vec![], &mut arrs);
    arrs.into_iter().find(|(a, _)| a == au).map(|(_, ids)| ids)
}

#[derive(Clone, Debug, PartialEq, Serialize, Deserialize)]
pub struct FinPlan {
    /// per replica: true = commit what is staged, false = unstage
    pub commit: Vec<bool>,
    /// extra partial deliveries before the complete exchange
    pub deliveries: Vec<gen::Op>,
    /// per replica: 0 = refresh only, 1 = reload, 2 = reopen
    pub final_mode: Vec<u8>,
}

impl World {
    // ------------------------------------------------------------------ resolve (C07)
    pub fn op_resolve(&mut self, i: usize, obj: u16, leaf: u16) -> R<()> {
        let conflicted: Vec<String> = guard("in_conflict", || self.reps[i].m.in_conflict())?.into_iter().collect();
        if conflicted.is_empty() {
            self.bump("resolve_noop");
            return Ok(());
        }
        let u = conflicted[gen::sel(obj, conflicted.len())].clone();
        let winner = match guard("get_winner", || self.reps[i].m.get_winner(&u))? {
            Ok(w) => w,
            Err(_) => return Ok(()),
        };
        let mut leaves: Vec<String> = guard("get_conflicting", || self.reps[i].m.get_conflicting(&u))?.unwrap_or_default().into_iter().collect();
        leaves.push(winner.clone());
        leaves.sort_by(|a, b| model::ref_cmp(a, b));
        let chosen = leaves[gen::sel(leaf, leaves.len())].clone();
        let is_arr = u.starts_with('^');
        let chosen_del = model::rev_is_deleted(&chosen);
        let pre_doc = read_doc(&self.reps[i].m)?;
        let chosen_val = guard("get_value", || self.reps[i].m.get_value(&u, Some(&chosen)))?;
        let chosen_order = if is_arr && !chosen_del {
            inv::leaf_order(&self.reps[i].m, &u, &chosen)?.ok()
        } else {
            None
        };
        self.log.push(format!("r{} resolve {:?} as {} (winner {}, leaves {:?})", i, u, chosen, winner, leaves));
        let res = guard("resolve_as", || self.reps[i].m.resolve_as(&u, &chosen))?;
        self.bump("resolves");
        if !self.is("C07") {
            return Ok(());
        }
        if let Err(e) = res {
            return viol("C07", format!("resolving {:?} in favour of its live leaf {} failed: {}", u, chosen, e));
        }
        let m = &self.reps[i].m;
        if guard("in_conflict", || m.in_conflict())?.contains(&u) {
            return viol("C07", format!("{:?} is still in conflict after resolve_as({})", u, chosen));
        }
        let new_winner = guard("get_winner", || m.get_winner(&u))?.unwrap_or_default();
        let post_doc = read_doc(m)?;
        if chosen != winner {
            bumpc(&mut self.cnt, "c07_chosen_not_winner");
        }
        if chosen_del {
            if !model::rev_is_deleted(&new_winner) {
                return viol("C07", format!("{:?} resolved in favour of the deletion {} but its winner is now the live revision {}", u, chosen, new_winner));
            }
            if let Ok(d) = &post_doc {
                if shown_ids(d).contains(&u) {
                    return viol("C07", format!("{:?} resolved in favour of a deletion but still appears in the document {}", u, d));
                }
            }
            if let Ok(d) = &pre_doc {
                if shown_ids(d).contains(&u) || d.to_string().contains(&format!("{:?}", u)) {
                    bumpc(&mut self.cnt, "c07_deletion_chosen_while_referenced");
                }
            }
        } else if !is_arr {
            let now = guard("get_value", || m.get_value(&u, None))?;
            match (&chosen_val, &now) {
                (Ok(a), Ok(b)) if a == b => {}
                _ => {
                    return viol("C07", format!("{:?} resolved as {} but its value is {:?}, the chosen revision's value was {:?}", u, chosen, now.as_ref().map_err(|e| e.to_string()), chosen_val.as_ref().map_err(|e| e.to_string())))
                }
            }
            if let (Ok(d), Ok(cv)) = (&post_doc, &chosen_val) {
                let mut tr = vec![];
                model::collect_tracked(d, &mut vec![], &mut tr);
                if let Some((_, own)) = tr.iter().find(|(id, _)| *id == u) {
                    // own content with flattened children replaced: compare the verbatim fields only
                    for (k, v) in cv {
                        if !k.ends_with(model::FLAT) && own.get(k) != Some(v) {
                            return viol("C07", format!("{:?} resolved as {} but the document shows field {:?} = {:?}, chosen value has {:?}", u, chosen, k, own.get(k), v));
                        }
                    }
                }
            }
        } else if let (Ok(pre), Ok(post)) = (&pre_doc, &post_doc) {
            if let (Some(a), Some(b)) = (array_ids(pre, &u), array_ids(post, &u)) {
                // an element that concurrent edits placed in several arrays is shown in exactly one of
                // them, and which one may change; what must not change is the set of objects shown
                let sa = shown_ids(pre);
                let sb = shown_ids(post);
                if sa != sb {
                    return viol("C07", format!("resolving array {:?} changed the set of objects shown in the document: {:?} -> {:?} (array {:?} -> {:?})", u, sa, sb, a, b));
                }
                if let Some(co) = &chosen_order {
                    let co: Vec<String> = co.iter().filter_map(|x| x.as_str().map(|s| s.to_string())).collect();
                    if !model::keeps_relative_order(&co, &b) {
                        return viol("C07", format!("resolving array {:?} as {} does not keep the chosen version's order {:?}: shown {:?}", u, chosen, co, b));
                    }
                }
                bumpc(&mut self.cnt, "c07_array_resolutions");
            }
        }
        if chosen == winner && !is_arr {
            if let (Ok(a), Ok(b)) = (&pre_doc, &post_doc) {
                if a != b {
                    return viol("C07", format!("choosing the current winner {} of {:?} changed the document:\n before {}\n after  {}", winner, u, a, b));
                }
            }
            bumpc(&mut self.cnt, "c07_chose_winner");
        }
        Ok(())
    }

    // ------------------------------------------------------------------ unstage (C15)
    pub fn op_unstage(&mut self, i: usize) -> R<()> {
        let staged = guard("has_staging", || self.reps[i].m.has_staging())?;
        let stage_before = guard("stage", || self.reps[i].m.stage())?.unwrap_or(None);
        let res = guard("unstage", || self.reps[i].m.unstage())?;
        self.log.push(format!("r{} unstage (staged={}) -> {:?}", i, staged, res.as_ref().map_err(|e| e.to_string())));
        self.bump("unstages");
        if self.is("C15") {
            if let Err(e) = res {
                return viol("C15", format!("unstage failed: {}", e));
            }
            if guard("has_staging", || self.reps[i].m.has_staging())? {
                return viol("C15", "has_staging() true after unstage".into());
            }
            let st = guard("stage", || self.reps[i].m.stage())?.unwrap_or(None);
            if st.is_some() {
                return viol("C15", format!("stage() not empty after unstage: {}", canon_stage(&st)));
            }
            if let Some(q) = self.reps[i].quiescent.clone() {
                let now = obs_full(&self.reps[i].m)?;
                if now != q {
                    return viol("C15", format!("unstage did not restore the last committed-or-refreshed state: {}", first_diff_full(&now, &q)));
                }
            }
            if staged {
                self.bump("c15_unstage_with_staging");
                if let Some(s) = &stage_before {
                    let mut recs = Default::default();
                    model::stage_records(s, &mut recs);
                    classify_stage(self, &recs);
                }
            }
            if !self.reps[i].traveled {
                self.live_equals_fresh(i, "C15", "after unstage")?;
                let r = guard("reload", || self.reps[i].m.reload())?;
                if let Err(e) = r {
                    return viol("C15", format!("reload right after unstage failed: {}", e));
                }
                self.live_equals_fresh(i, "C15", "after unstage + reload")?;
            }
        }
        self.set_quiescent(i)?;
        Ok(())
    }

    /// export the stage and replay it after further edits / after discarding and other edits / after commit
    pub fn op_replay_onto(&mut self, i: usize, mode: u8, edit: &[crate::gen::EditStep]) -> R<()> {
        if !guard("has_staging", || self.reps[i].m.has_staging())? {
            self.op_update(i, edit)?;
        }
        let s1 = match guard("stage", || self.reps[i].m.stage())? {
            Ok(Some(s)) => Some(s),
            _ => return Ok(()),
        };
        let lbl: &'static str = if self.is("C15") { "C15" } else if self.is("C04") { "C04" } else if self.is("C12") { "C12" } else { "" };
        self.log.push(format!("r{} replay-onto mode {} of {}", i, mode % 3, canon_stage(&s1)));
        match mode % 3 {
            0 => self.op_update(i, edit)?,
            1 => {
                self.op_unstage(i)?;
                self.op_update(i, edit)?;
            }
            _ => {
                self.op_commit(i, None)?;
                if guard("has_staging", || self.reps[i].m.has_staging())? {
                    // the commit did not go through (e.g. refused): nothing to learn here
                    return Ok(());
                }
            }
        }
        let before = obs_full(&self.reps[i].m)?;
        let r = guard("replay_stage", || self.reps[i].m.replay_stage(&s1))?;
        self.log.push(format!("   replay -> {:?}", r.as_ref().map_err(|e| e.to_string())));
        self.bump("replays_onto");
        if mode % 3 == 2 {
            // everything in the export is committed already: replaying it changes nothing and stages nothing
            let after = obs_full(&self.reps[i].m)?;
            let staged = guard("has_staging", || self.reps[i].m.has_staging())?;
            if !lbl.is_empty() {
                if staged {
                    return viol(lbl, "replaying an export whose changes are all committed already left the replica with staged changes (nothing changed, yet a commit would be written)".into());
                }
                if before != after {
                    return viol(lbl, format!("replaying an export whose changes are all committed already changed the replica: {}", first_diff_full(&before, &after)));
                }
            }
            self.bump("replays_after_commit");
        } else if r.is_ok() {
            // replaying the same export a second time changes nothing
            let once = obs_full(&self.reps[i].m)?;
            let r2 = guard("replay_stage", || self.reps[i].m.replay_stage(&s1))?;
            let twice = obs_full(&self.reps[i].m)?;
            if !lbl.is_empty() && (r2.is_err() || once != twice) {
                return viol(lbl, format!("replaying the same export a second time is not idempotent ({:?}): {}", r2.map_err(|e| e.to_string()), first_diff_full(&once, &twice)));
            }
        }
        Ok(())
    }

    pub fn op_stage_roundtrip(&mut self, i: usize) -> R<()> {
        if !guard("has_staging", || self.reps[i].m.has_staging())? {
            self.bump("stagert_noop");
            return Ok(());
        }
        let o1 = obs_full(&self.reps[i].m)?;
        let s1 = match guard("stage", || self.reps[i].m.stage())? {
            Ok(s) => s,
            Err(e) => return if self.is("C15") { viol("C15", format!("stage() failed: {}", e)) } else { Ok(()) },
        };
        self.log.push(format!("r{} stage/unstage/replay {}", i, canon_stage(&s1)));
        if s1.is_none() && self.is("C15") {
            return viol("C15", "has_staging() is true but stage() exports nothing".into());
        }
        let r = guard("unstage", || self.reps[i].m.unstage())?;
        if r.is_err() {
            return Ok(());
        }
        let mid = obs_full(&self.reps[i].m)?;
        let r = guard("replay_stage", || self.reps[i].m.replay_stage(&s1))?;
        self.bump("stage_roundtrips");
        if self.is("C07") {
            // a resolution that was staged, exported, discarded and replayed is still a resolution: the
            // objects it took out of the conflict set stay out, and the chosen revisions stay the winners
            let o2 = obs_full(&self.reps[i].m)?;
            if r.is_ok() && (o1.core.conflicts != o2.core.conflicts || o1.core.winners != o2.core.winners) {
                return viol("C07", format!("a staged resolution did not survive export / discard / replay: {}", first_diff(&o1.core, &o2.core)));
            }
            self.bump("c07_stage_roundtrips");
        }
        if self.is("C15") {
            if let Err(e) = r {
                return viol("C15", format!("replaying an exported stage failed: {}", e));
            }
            if let Some(q) = &self.reps[i].quiescent {
                if &mid != q {
                    return viol("C15", format!("unstage (inside export/replay) did not restore the base state: {}", first_diff_full(&mid, q)));
                }
            }
            let o2 = obs_full(&self.reps[i].m)?;
            if o1 != o2 {
                return viol("C15", format!("export / unstage / replay did not restore the staged state: {}", first_diff_full(&o1, &o2)));
            }
            let s2 = guard("stage", || self.reps[i].m.stage())?.unwrap_or(None);
            if canon_stage(&s1) != canon_stage(&s2) {
                return viol("C15", format!("stage export after replay differs:\n {}\n {}", canon_stage(&s1), canon_stage(&s2)));
            }
            if let Some(s) = &s1 {
                let mut recs = Default::default();
                model::stage_records(s, &mut recs);
                classify_stage(self, &recs);
            }
        }
        Ok(())
    }

    // ------------------------------------------------------------------ snapshot (C12)
    pub fn op_snapshot(&mut self, i: usize) -> R<()> {
        let pre = read_doc(&self.reps[i].m)?;
        let arrconf = self.array_in_conflict(i)?;
        let res = guard("stage_full_snapshot", || self.reps[i].m.stage_full_snapshot())?;
        self.log.push(format!("r{} stage_full_snapshot -> {:?}", i, res.as_ref().map_err(|e| e.to_string())));
        self.bump("snapshots");
        if self.is("C06") || self.is("C16") {
            let lbl: &'static str = if self.is("C16") { "C16" } else { "C06" };
            // a full snapshot is not an edit: the concurrent versions are what they were, so the merged arrays
            // must still hold every element they held (nothing lost, nothing duplicated, same order)
            let post = read_doc(&self.reps[i].m)?;
            if let (Ok(a), Ok(b)) = (&pre, &post) {
                let (mut x, mut y) = (vec![], vec![]);
                model::doc_arrays(a, &mut vec![], &mut x);
                model::doc_arrays(b, &mut vec![], &mut y);
                if x != y {
                    return viol(lbl, format!("taking a full snapshot (re-encoding the edit scripts as full arrays) changed the arrays the replica reconstructs:\n before {:?}\n after  {:?}", x, y));
                }
                if arrconf {
                    self.bump("c06_snapshots_with_array_conflict");
                }
            }
        }
        if self.is("C12") {
            let post = read_doc(&self.reps[i].m)?;
            if pre != post {
                return viol("C12", format!("stage_full_snapshot changed the document:\n before {:?}\n after  {:?}", pre, post));
            }
            if arrconf {
                self.bump("c12_snapshots_with_array_conflict");
            }
        }
        Ok(())
    }

    // ------------------------------------------------------------------ time travel (C14)
    pub fn op_timetravel(&mut self, i: usize, heads: u16) -> R<()> {
        let staged = guard("has_staging", || self.reps[i].m.has_staging())?;
        let cands: Vec<(BTreeSet<String>, Obs)> = self.reps[i].heads_hist.clone();
        if cands.is_empty() {
            self.bump("timetravel_noop");
            return Ok(());
        }
        let (h, want) = cands[gen::sel(heads, cands.len())].clone();
        let target = parse_heads(&h);
        let pre = obs_full(&self.reps[i].m)?;
        let was_traveled = self.reps[i].traveled;
        let pend_before = self.pending(i);
        let res = guard("reload_until", || self.reps[i].m.reload_until(&target))?;
        self.log.push(format!("r{} reload_until {:?} -> {:?}", i, h, res.as_ref().map_err(|e| e.to_string())));
        if staged {
            if self.is("C15") {
                if res.is_ok() {
                    return viol("C15", "reload_until ran although changes were staged".into());
                }
                let post = obs_full(&self.reps[i].m)?;
                if pre != post {
                    return viol("C15", format!("refused reload_until changed the state: {}", first_diff_full(&pre, &post)));
                }
            }
            return Ok(());
        }
        if let Err(e) = res {
            self.bump("timetravel_err");
            let post = obs_full(&self.reps[i].m)?;
            if (self.is("C15") || self.is("C14")) && pre != post {
                return viol(if self.is("C14") { "C14" } else { "C15" }, format!("reload_until failed ({}) and left the replica changed: {}", e, first_diff_full(&pre, &post)));
            }
            return Ok(());
        }
        self.reps[i].traveled = true;
        self.bump("timetravels");
        if self.is("C14") {
            let clo = self.closure_of(i);
            let anc = model::ancestry(&clo.applied, &h);
            if h.len() >= 2 {
                self.bump("c14_multi_head_targets");
            }
            let has_merge = anc.iter().any(|b| clo.applied.get(b).map_or(false, |x| x.parents.len() >= 2));
            let outside = clo.applied.len() > anc.len();
            if (h.len() >= 2 || has_merge) && outside {
                self.bump("c14_nontrivial_travels");
            }
            let got = obs(&self.reps[i].m)?;
            if got != want {
                return viol("C14", format!("state after reload_until({:?}) differs from what was shown when these were the heads: {}", h, first_diff(&got, &want)));
            }
            let a = anchors_str(&self.reps[i].m)?;
            if a != h {
                return viol("C14", format!("heads after reload_until({:?}) are {:?}", h, a));
            }
            let applied = applied_hook(&self.reps[i].m);
            if applied != anc {
                return viol("C14", format!("blocks applied after reload_until({:?}) are {:?}, the ancestry is {:?}", h, applied, anc));
            }
            inv::record_revs(self, i)?;
            // new_until on the same storage
            let ad = self.reps[i].store.ad();
            let nu = guard("new_until", || melda::melda::Melda::new_until(ad, &target))?;
            match nu {
                Ok(m2) => {
                    let o2 = obs(&m2)?;
                    if o2 != want {
                        return viol("C14", format!("new_until({:?}) differs from the recorded state: {}", h, first_diff(&o2, &want)));
                    }
                }
                Err(e) => return viol("C14", format!("new_until({:?}) failed: {}", h, e)),
            }
            // and back: half of the time travels return immediately (selector parity)
            if heads & 1 == 1 {
                let r = guard("reload", || self.reps[i].m.reload())?;
                if let Err(e) = r {
                    return viol("C14", format!("reload after time travel failed: {}", e));
                }
                self.reps[i].traveled = false;
                self.log.push(format!("r{} reload (return from time travel)", i));
                if pend_before.is_empty() && !was_traveled {
                    let back = obs_full(&self.reps[i].m)?;
                    if back != pre {
                        return viol("C14", format!("reload after time travel did not return to the latest state: {}", first_diff_full(&back, &pre)));
                    }
                } else {
                    self.live_equals_fresh(i, "C14", "reload after time travel")?;
                }
                inv::record_revs(self, i)?;
                self.bump("c14_returns_checked");
            }
        }
        self.set_quiescent(i)?;
        Ok(())
    }

    // ------------------------------------------------------------------ low-level object calls
    pub fn op_lowlevel(&mut self, i: usize, kind: u8, id: u8, content: &Value) -> R<()> {
        const LIDS: [&str; 6] = ["lo1", "lo2", "p", "q", "zz", "k9"];
        let id = LIDS[id as usize % LIDS.len()];
        let mut obj = serde_json::Map::new();
        obj.insert("z".into(), content.clone());
        let m = &self.reps[i].m;
        let r = match kind % 4 {
            0 => guard("create_object", || m.create_object(id, obj).map(|x| format!("{:?}", x)))?,
            1 => guard("update_object", || m.update_object(id, obj).map(|x| format!("{:?}", x)))?,
            2 => guard("delete_object", || m.delete_object(id).map(|x| format!("{:?}", x)))?,
            _ => guard("remove_object", || m.remove_object(id).map(|x| format!("{:?}", x)))?,
        };
        self.log.push(format!("r{} lowlevel {} {:?} {} -> {:?}", i, kind % 4, id, content, r.map_err(|e| e.to_string())));
        self.bump("lowlevel_ops");
        Ok(())
    }

    // ------------------------------------------------------------------ final delivery and convergence (C01)
    pub fn converge(&mut self, plan: &FinPlan) -> R<()> {
        let n = self.n();
        let conv = self.is("C01") || self.is("C07");
        // in the C07 check a failure to converge contradicts C07's "the resolution propagates / still converge"
        let lbl: &'static str = if self.is("C07") { "C07" } else { "C01" };
        self.log.push("-- final phase".into());
        for i in 0..n {
            // leave time travel / staged state
            let staged = guard("has_staging", || self.reps[i].m.has_staging())?;
            if staged && plan.commit.get(i).cloned().unwrap_or(true) {
                self.op_commit(i, None)?;
            } else {
                let _ = guard("unstage", || self.reps[i].m.unstage())?;
                self.set_quiescent(i)?;
            }
        }
        // C06: the version of every array each replica shows before the exchange, with the descriptor
        // revision it stands for, and which descriptor revisions are superseded (proper ancestors of some
        // replica's leaves, or sealed by a resolution marker) according to the replicas' own trees
        let mut pre_versions: Vec<Vec<(String, String, Vec<String>)>> = vec![];
        let mut superseded: BTreeSet<(String, String)> = BTreeSet::new();
        if self.is("C06") {
            for i in 0..n {
                // superseded descriptor revisions, from every array descriptor this replica knows
                let objs = guard("get_all_objects", || self.reps[i].m.get_all_objects())?;
                for au in objs.iter().filter(|o| o.starts_with('^')) {
                    if let Some(t) = self.reps[i].m.verif_tree(au) {
                        let parent: std::collections::BTreeMap<String, Option<String>> = t.iter().map(|(r, p, _)| (r.clone(), p.clone())).collect();
                        for (r, p, _) in &t {
                            // every revision that has a child (an edit or a resolution marker on top of it)
                            if let Some(p) = p {
                                let _ = r;
                                superseded.insert((au.clone(), p.clone()));
                            }
                        }
                        let _ = parent;
                    }
                }
                let mut arrs = vec![];
                if let Ok(d) = read_doc(&self.reps[i].m)? {
                    model::doc_arrays(&d, &mut vec![], &mut arrs);
                }
                let mut v = vec![];
                for (au, _ids) in arrs {
                    let Ok(wr) = guard("get_winner", || self.reps[i].m.get_winner(&au))? else { continue };
                    let mut leaves: Vec<String> = guard("get_conflicting", || self.reps[i].m.get_conflicting(&au))?.unwrap_or_default().into_iter().collect();
                    leaves.push(wr);
                    // each live leaf is a version of its own (the shown array is their merge)
                    for l in &leaves {
                        if let Ok(o) = inv::leaf_order(&self.reps[i].m, &au, l)? {
                            v.push((au.clone(), l.clone(), o.iter().filter_map(|x| x.as_str().map(|s| s.to_string())).collect()));
                        }
                    }
                }
                pre_versions.push(v);
            }
        }
        for d in &plan.deliveries {
            match d {
                gen::Op::Meld { .. } | gen::Op::MeldRefresh { .. } | gen::Op::FileCopy { .. } | gen::Op::Reopen { .. } | gen::Op::Refresh { .. } | gen::Op::Reload { .. } => {
                    self.step(d)?;
                }
                _ => {}
            }
        }
        // exchange in both directions until nobody learns anything new
        let mut rounds = 0;
        loop {
            rounds += 1;
            let mut learned = 0usize;
            for i in 0..n {
                for j in 0..n {
                    if i == j {
                        continue;
                    }
                    // the source publishes only what it has loaded
                    let _ = guard("refresh", || self.reps[j].m.refresh())?;
                    self.reps[j].traveled = false;
                    let before = self.reps[i].store.keys().len();
                    self.op_meld(i, j)?;
                    learned += self.reps[i].store.keys().len() - before;
                    let r = guard("refresh", || self.reps[i].m.refresh())?;
                    if let Err(e) = r {
                        if conv {
                            return viol(lbl, format!("refresh during the final exchange failed: {}", e));
                        }
                    }
                    self.reps[i].traveled = false;
                }
            }
            if learned == 0 {
                break;
            }
            if rounds > n + 3 {
                if !conv {
                    break;
                }
                return viol(lbl, format!("exchanging items in both directions did not reach a fixpoint within {} rounds", rounds));
            }
        }
        for i in 0..n {
            match plan.final_mode.get(i).cloned().unwrap_or(0) % 3 {
                1 => {
                    let r = guard("reload", || self.reps[i].m.reload())?;
                    if let Err(e) = r {
                        if conv {
                            return viol(lbl, format!("final reload failed: {}", e));
                        }
                    }
                }
                2 => self.op_reopen(i)?,
                _ => {}
            }
        }
        // same items everywhere?
        let k0 = self.reps[0].store.snap();
        for i in 1..n {
            if !conv {
                break;
            }
            if self.reps[i].store.snap() != k0 {
                return viol(lbl, format!("after the exchange reached a fixpoint replicas 0 and {} hold different items", i));
            }
        }
        let o0 = obs(&self.reps[0].m)?;
        for i in 1..n {
            if !conv {
                break;
            }
            let oi = obs(&self.reps[i].m)?;
            if oi != o0 {
                return viol(lbl, format!("replicas 0 and {} hold the same items but expose different state: {}", i, first_diff(&o0, &oi)));
            }
        }
        // fresh replicas on byte copies of the storage agree too (several: every instance seeds its hash
        // tables anew, and the listing order is permuted differently for each)
        for k in 0..3u64 {
            if !conv {
                break;
            }
            let copy = crate::store::HStore::from_snap(&k0);
            copy.with(|s| s.perm = if k == 0 { None } else { Some(k.wrapping_mul(0x9E3779B97F4A7C15) ^ k0.len() as u64) });
            match open(copy.ad())? {
                Ok(m) => {
                    let of = obs(&m)?;
                    if of != o0 {
                        return viol(lbl, format!("a fresh replica on a copy of the storage differs: {}", first_diff(&o0, &of)));
                    }
                }
                Err(e) => return viol(lbl, format!("cannot open a fresh replica on a copy of the converged storage: {}", e)),
            }
        }
        if self.is("C07") && !o0.in_conflict.is_empty() {
            self.bump("c07_final_states_still_in_conflict");
        }
        if self.is("C06") {
            for i in 0..n {
                inv::check_c06(self, i)?;
                // every element of a pre-exchange version of an array that is still shown, whose object is
                // not deleted, appears in the document after synchronisation
                if let Ok(doc) = read_doc(&self.reps[i].m)? {
                    let mut arrs = vec![];
                    model::doc_arrays(&doc, &mut vec![], &mut arrs);
                    let shown_arrays: BTreeSet<String> = arrs.iter().map(|(a, _)| a.clone()).collect();
                    let shown = shown_ids(&doc);
                    for (j, vers) in pre_versions.iter().enumerate() {
                        for (au, rev, ids) in vers {
                            // only versions that are concurrent (not an ancestor of, nor sealed by, anything any
                            // replica held before the exchange) are covered by the statement
                            if !shown_arrays.contains(au) || superseded.contains(&(au.clone(), rev.clone())) {
                                continue;
                            }
                            for id in ids {
                                let live = match guard("get_winner", || self.reps[i].m.get_winner(id))? {
                                    Ok(w) => !model::rev_is_deleted(&w),
                                    Err(_) => false,
                                };
                                if live && !shown.contains(id) {
                                    return viol("C06", format!("element {:?} was in replica {}'s version of {} before synchronisation, its object is not deleted, but replica {} does not show it afterwards: {} [version {} ; superseded {:?}]", id, j, au, i, doc, rev, superseded.iter().filter(|(a, _)| a == au).map(|(_, r)| r.clone()).collect::<Vec<_>>()));
                                }
                            }
                        }
                    }
                    self.bump("c06_post_sync_version_checks");
                }
            }
        }
        if self.is("C13") {
            for i in 0..n {
                inv::check_c13(self, i)?;
            }
            let h0 = anchors_str(&self.reps[0].m)?;
            for i in 1..n {
                if anchors_str(&self.reps[i].m)? != h0 {
                    return viol("C13", "replicas with the same items report different heads".into());
                }
            }
        }
        if self.is("C05") {
            for i in 0..n {
                inv::check_c05(self, i)?;
            }
        }
        if self.is("C11") {
            inv::check_c11(self)?;
        }
        // classification of the whole history from the block graph
        let clo = model::closure(&k0);
        if clo.applied.values().any(|b| b.parents.len() >= 2) {
            self.bump("hist_has_merge_block");
        }
        if clo.applied.values().any(|b| b.changes.len() >= 2) {
            self.bump("hist_has_multi_object_commit");
        }
        let mut children: std::collections::BTreeMap<&String, usize> = Default::default();
        for b in clo.applied.values() {
            for p in &b.parents {
                *children.entry(p).or_insert(0) += 1;
            }
        }
        let roots = clo.applied.values().filter(|b| b.parents.is_empty()).count();
        if children.values().any(|c| *c >= 2) || roots >= 2 {
            self.bump("hist_has_concurrent_branches");
        }
        self.bump("converged_histories");
        Ok(())
    }
}

pub fn bumpc(c: &mut Counters, k: &'static str) {
    *c.entry(k).or_insert(0) += 1;
}

fn classify_stage(w: &mut World, recs: &std::collections::BTreeMap<String, model::Recs>) {
    let chain = recs.values().any(|r| r.len() >= 2);
    let creation = recs.values().any(|r| r.values().any(|p| p.is_none()));
    let deletion = recs.values().any(|r| r.keys().any(|k| model::rev_is_deleted(k)));
    let marker = recs.values().any(|r| r.keys().any(|k| model::rev_is_marker(k)));
    if chain {
        w.bump("c15_stage_with_chain");
    }
    if marker {
        w.bump("c15_stage_with_marker");
    }
    if (chain as u8 + creation as u8 + deletion as u8 + marker as u8) >= 3 {
        w.bump("c15_rich_stage");
    }
}

#[allow(dead_code)]
pub fn j_null() -> J {
    J::N
}
