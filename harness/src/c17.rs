//! C17: all storage backends implement the same write-once contract, and the same replica history
//! yields the same state over every backend. Twelve stacks: {memory, directory, SQLite file,
//! SQLite in-memory} x {plain, +Deflate, +Brotli}.
use crate::gen::{self, info_map, Mix, Node, Op};
use crate::runner::CaseRes;
use crate::store::Ad;
use crate::world::*;
use melda::adapter::Adapter;
use melda::melda::Melda;
use proptest::collection::vec;
use proptest::prelude::*;
use serde::{Deserialize, Serialize};
use std::collections::BTreeMap;
use std::sync::atomic::{AtomicU64, Ordering};
use std::sync::{Arc, RwLock};

static CTR: AtomicU64 = AtomicU64::new(0);

pub const STACKS: [(&str, &str); 12] = [
    ("memory", ""), ("memory", "flate"), ("memory", "brotli"),
    ("dir", ""), ("dir", "flate"), ("dir", "brotli"),
    ("sqlite", ""), ("sqlite", "flate"), ("sqlite", "brotli"),
    ("sqlitemem", ""), ("sqlitemem", "flate"), ("sqlitemem", "brotli"),
];

pub struct Stack {
    pub base: &'static str,
    pub wrap: &'static str,
    pub path: String,
    pub ad: Ad,
}

fn scratch() -> String {
    let root = std::env::var("VERIF_SCRATCH").unwrap_or_else(|_| format!("{}/.scratch/misc", std::env::var("VERIF_ROOT").unwrap_or_else(|_| "/verif".to_string())));
    let p = format!("{}/bk-{}-{}", root, std::process::id(), CTR.fetch_add(1, Ordering::SeqCst));
    p
}

fn make_inner(base: &str, path: &str) -> Result<Box<dyn Adapter>, String> {
    Ok(match base {
        "memory" => Box::new(melda::memoryadapter::MemoryAdapter::new()),
        "dir" => Box::new(melda::filesystemadapter::FilesystemAdapter::new(path).map_err(|e| e.to_string())?),
        "sqlite" => {
            if let Some(parent) = std::path::Path::new(path).parent() {
                let _ = std::fs::create_dir_all(parent);
            }
            Box::new(melda::sqliteadapter::SqliteAdapter::new(&format!("{}.db", path)))
        }
        _ => Box::new(melda::sqliteadapter::SqliteAdapter::new_in_memory()),
    })
}

fn wrap(inner: Box<dyn Adapter>, w: &str) -> Ad {
    let inner: Ad = Arc::new(RwLock::new(inner));
    match w {
        "flate" => Arc::new(RwLock::new(Box::new(melda::flate2adapter::Flate2Adapter::new(inner)) as Box<dyn Adapter>)),
        "brotli" => Arc::new(RwLock::new(Box::new(melda::brotliadapter::BrotliAdapter::new(inner)) as Box<dyn Adapter>)),
        _ => inner,
    }
}

impl Stack {
    pub fn new(base: &'static str, w: &'static str) -> R<Stack> {
        let path = scratch();
        let inner = guard("adapter_new", || make_inner(base, &path))?.map_err(|e| Fail::Violation { prop: "C17", msg: e })?;
        Ok(Stack { base, wrap: w, path, ad: wrap(inner, w) })
    }
    pub fn persistent(&self) -> bool {
        self.base == "dir" || self.base == "sqlite"
    }
    /// drop the adapter and open the same location again (persistent backends only)
    pub fn reopen(&mut self) -> R<()> {
        if !self.persistent() {
            return Ok(());
        }
        // release the old connection first
        self.ad = wrap(Box::new(melda::memoryadapter::MemoryAdapter::new()), "");
        let (base, path) = (self.base, self.path.clone());
        let inner = guard("adapter_reopen", || make_inner(base, &path))?.map_err(|e| Fail::Violation { prop: "C17", msg: e })?;
        self.ad = wrap(inner, self.wrap);
        Ok(())
    }
    pub fn name(&self) -> String {
        format!("{}+{}", self.base, self.wrap)
    }
}

impl Drop for Stack {
    fn drop(&mut self) {
        let _ = std::fs::remove_dir_all(&self.path);
        let _ = std::fs::remove_file(format!("{}.db", self.path));
        let _ = std::fs::remove_file(format!("{}.db-journal", self.path));
    }
}

// ------------------------------------------------------------------ contract level

#[derive(Clone, Debug, Serialize, Deserialize)]
pub enum KvOp {
    Write { key: u16, val: u8, len: u16, fill: u64 },
    ReadFull { key: u16 },
    ReadSlice { key: u16, off: u16, len: u16 },
    List { suffix: u8 },
    Reopen,
}

const STEMS: [&str; 12] = ["aaa", "abc", "ab", "zz9", "k", "x.y", "1-0f", "aa", "AAA", "a_c", "a%c", "aXc"];
const EXTS: [&str; 14] = [".delta", ".pack", ".flate", ".brotli", ".delta.flate", ".pack.pack", ".flate.flate", ".txt", "", ".brotli.delta", ".deltax", ".PACK", ".Delta", "_v1"];
const SUFFIXES: [&str; 20] = ["", ".delta", ".pack", ".flate", ".brotli", "delta", ".del", "a.delta", ".delta.flate", ".pack.pack", "x", "9.pack", ".this-suffix-is-longer-than-any-key", "ck", ".PACK", "_v1", "_c.pack", "%", "a%c.delta", "c.pack"];

fn key_of(k: u16) -> String {
    let s = STEMS[(k as usize) % STEMS.len()];
    let e = EXTS[(k as usize / STEMS.len()) % EXTS.len()];
    let mut key = format!("{}{}", s, e);
    while key.len() < 3 {
        key.push('_');
    }
    key
}

fn value_of(kind: u8, len: u16, fill: u64) -> Vec<u8> {
    let n = match kind % 5 {
        0 => 0,
        1 => 1,
        2 => (len % 300) as usize,
        3 => len as usize,
        _ => (len as usize) * 2,
    };
    let mut s = fill;
    let mut v = Vec::with_capacity(n);
    for i in 0..n {
        if kind % 2 == 0 {
            v.push(crate::store::splitmix(&mut s) as u8);
        } else {
            v.push(b"melda-"[i % 6] ^ ((fill as u8) & 1));
        }
    }
    v
}

pub fn kv_strategy() -> BoxedStrategy<Vec<KvOp>> {
    let key = || prop_oneof![3 => 0u16..12, 2 => 0u16..168];
    let one = |o: KvOp| vec![o];
    let op = prop_oneof![
        6 => (key(), any::<u8>(), any::<u16>(), any::<u64>()).prop_map(move |(key, val, len, fill)| one(KvOp::Write { key, val, len, fill })),
        4 => key().prop_map(move |key| one(KvOp::ReadFull { key })),
        4 => (key(), any::<u16>(), any::<u16>()).prop_map(move |(key, off, len)| one(KvOp::ReadSlice { key, off, len })),
        3 => (0u8..20).prop_map(move |suffix| one(KvOp::List { suffix })),
        1 => Just(one(KvOp::Reopen)),
        // look-before-write pattern (what a replica does with a block whose pack has not arrived yet): read
        // some other key, look the key up (a miss if it was never written), optionally list, write it, read
        // it back whole and as a slice
        3 => (key(), key(), any::<u8>(), any::<u16>(), any::<u64>(), any::<u16>(), any::<u16>(), prop::option::of(0u8..20)).prop_map(
            |(other, key, val, len, fill, off, sl, list)| {
                let mut v = vec![KvOp::ReadFull { key: other }, KvOp::ReadFull { key }];
                if let Some(suffix) = list {
                    v.push(KvOp::List { suffix });
                }
                v.extend([KvOp::Write { key, val, len, fill }, KvOp::ReadFull { key }, KvOp::ReadSlice { key, off, len: sl }]);
                v
            }
        ),
    ];
    vec(op, 1..30).prop_map(|v| v.into_iter().flatten().collect()).boxed()
}

pub fn run_kv(ops: &[KvOp], stack_filter: Option<usize>) -> CaseRes {
    let mut cnt = Counters::new();
    let mut log = vec![];
    let mut steps = 0;
    let mut nontrivial = false;
    let res = (|| -> R<()> {
        for (si, (b, wname)) in STACKS.iter().enumerate() {
            if stack_filter.map_or(false, |f| f != si) {
                continue;
            }
            let mut st = Stack::new(b, wname)?;
            let mut model: BTreeMap<String, Vec<u8>> = BTreeMap::new();
            let (mut second_write, mut slice, mut list) = (false, false, false);
            for op in ops {
                steps += 1;
                let name = st.name();
                match op {
                    KvOp::Write { key, val, len, fill } => {
                        let k = key_of(*key);
                        let v = value_of(*val, *len, *fill);
                        let r = guard("write_object", || st.ad.write().unwrap().write_object(&k, &v))?;
                        if let Err(e) = r {
                            return viol("C17", format!("[{}] write_object({:?}, {} bytes) failed: {}", name, k, v.len(), e));
                        }
                        if model.contains_key(&k) {
                            second_write = true;
                        } else {
                            model.insert(k, v);
                        }
                    }
                    KvOp::ReadFull { key } => {
                        let k = key_of(*key);
                        let r = guard("read_object", || st.ad.read().unwrap().read_object(&k, 0, 0))?;
                        match (model.get(&k), r) {
                            (Some(want), Ok(got)) => {
                                if &got != want {
                                    return viol("C17", format!("[{}] read_object({:?}) returned {} bytes that are not the bytes of the first write ({} bytes)", name, k, got.len(), want.len()));
                                }
                            }
                            (Some(want), Err(e)) => return viol("C17", format!("[{}] read_object({:?}) failed ({}) although {} bytes were written", name, k, e, want.len())),
                            (None, Ok(got)) => return viol("C17", format!("[{}] read_object({:?}) returned {} bytes for a key never written", name, k, got.len())),
                            (None, Err(_)) => {}
                        }
                    }
                    KvOp::ReadSlice { key, off, len } => {
                        let k = key_of(*key);
                        if let Some(want) = model.get(&k) {
                            if want.is_empty() {
                                continue;
                            }
                            let o = gen::sel(*off, want.len());
                            let l = 1 + gen::sel(*len, want.len() - o);
                            let r = guard("read_object", || st.ad.read().unwrap().read_object(&k, o, l))?;
                            match r {
                                Ok(got) => {
                                    if got != want[o..o + l] {
                                        return viol("C17", format!("[{}] read_object({:?}, {}, {}) returned the wrong slice", name, k, o, l));
                                    }
                                }
                                Err(e) => return viol("C17", format!("[{}] in-range read_object({:?}, {}, {}) of {} bytes failed: {}", name, k, o, l, want.len(), e)),
                            }
                            slice = true;
                        }
                    }
                    KvOp::List { suffix } => {
                        let sfx = SUFFIXES[*suffix as usize % SUFFIXES.len()];
                        let r = guard("list_objects", || st.ad.read().unwrap().list_objects(sfx))?;
                        let mut got = match r {
                            Ok(g) => g,
                            Err(e) => return viol("C17", format!("[{}] list_objects({:?}) failed: {}", name, sfx, e)),
                        };
                        got.sort();
                        let mut want: Vec<String> = model.keys().filter(|k| k.ends_with(sfx)).map(|k| k[..k.len() - sfx.len()].to_string()).collect();
                        want.sort();
                        if got != want {
                            return viol("C17", format!("[{}] list_objects({:?}) = {:?}, expected {:?}", name, sfx, got, want));
                        }
                        list = true;
                    }
                    KvOp::Reopen => {
                        st.reopen()?;
                        if st.persistent() {
                            *cnt.entry("kv_reopens_persistent").or_insert(0) += 1;
                        }
                    }
                }
            }
            // final full comparison (after a reopen for persistent stacks)
            st.reopen()?;
            let r = guard("list_objects", || st.ad.read().unwrap().list_objects(""))?;
            let mut got = r.map_err(|e| Fail::Violation { prop: "C17", msg: format!("[{}] final list failed: {}", st.name(), e) })?;
            got.sort();
            {
                // non-persistent stacks keep their adapter across reopen(), so the content must still be there
                let want: Vec<String> = model.keys().cloned().collect();
                if got != want {
                    return viol("C17", format!("[{}] after reopening, listing is {:?}, expected {:?}", st.name(), got, want));
                }
                for (k, v) in &model {
                    let r = guard("read_object", || st.ad.read().unwrap().read_object(k, 0, 0))?;
                    if r.as_ref().ok() != Some(v) {
                        return viol("C17", format!("[{}] after reopening, {:?} does not read back the bytes first written", st.name(), k));
                    }
                }
            }
            if second_write && slice && list {
                nontrivial = true;
            }
            log.push(format!("stack {} ok", st.name()));
        }
        Ok(())
    })();
    // a backend operation that aborts violates the contract just like a wrong answer
    let res = match res {
        Err(Fail::Panic { op, msg }) => viol("C17", format!("backend operation {} aborted: {}", op, msg)),
        x => x,
    };
    CaseRes { counters: cnt, nontrivial, result: res, log, steps }
}

// ------------------------------------------------------------------ replica level

#[derive(Clone, Debug, Serialize, Deserialize)]
pub struct RepCase {
    pub ops: Vec<Op>,
}

pub fn rep_strategy() -> BoxedStrategy<RepCase> {
    let mix = Mix { update: 10, commit: 7, meldrefresh: 6, meld: 0, refresh: 1, reload: 1, reopen: 3, filecopy: 0, resolve: 3, unstage: 1, stagert: 0, snapshot: 1, timetravel: 0, lowlevel: 0, mergecommit: 0, churn: 0, faultycommit: 0, foreign: 0, faultymeld: 0, snaprace: 0, tornblock: 0, rich: true, rich_info: true };
    gen::history(&mix, 24).prop_map(|ops| RepCase { ops }).boxed()
}

/// run the history on one stack with two replicas; returns the per-step observations
fn run_on_stack(si: usize, ops: &[Op], cnt: &mut Counters) -> R<Vec<(Obs, Obs)>> {
    let (b, wn) = STACKS[si];
    let mut stacks = vec![Stack::new(b, wn)?, Stack::new(b, wn)?];
    let mut ms: Vec<Melda> = vec![];
    for s in &stacks {
        match open(s.ad.clone())? {
            Ok(m) => ms.push(m),
            Err(e) => return viol("C17", format!("[{}+{}] cannot open a replica: {}", b, wn, e)),
        }
    }
    let mut trace = vec![];
    for op in ops {
        let rix = |r: u8| ((r as usize) * 2) >> 8;
        match op {
            Op::Update { r, edit } => {
                let i = rix(*r);
                let base = match read_doc(&ms[i])? {
                    Ok(d) => Node::from_value(&d),
                    Err(_) => Node::default(),
                };
                let mut node = base;
                gen::apply_edit(&mut node, edit);
                let d = node.to_value().as_object().cloned().unwrap_or_default();
                let _ = guard("update", || ms[i].update(d))?;
            }
            Op::Commit { r, info } => {
                let i = rix(*r);
                let inf = info_map(info);
                let res = guard("commit", || ms[i].commit(inf))?;
                if let Err(e) = res {
                    return viol("C17", format!("[{}+{}] commit failed: {}", b, wn, e));
                }
            }
            Op::MeldRefresh { r, .. } => {
                let i = rix(*r);
                let j = 1 - i;
                let (a, bb) = if i < j {
                    let (x, y) = ms.split_at_mut(j);
                    (&mut x[i], &y[0])
                } else {
                    let (x, y) = ms.split_at_mut(i);
                    (&mut y[0], &x[j])
                };
                let _ = guard("meld", || a.meld(bb))?;
                let _ = guard("refresh", || a.refresh())?;
            }
            Op::Refresh { r } => {
                let i = rix(*r);
                let _ = guard("refresh", || ms[i].refresh())?;
            }
            Op::Reload { r } => {
                let i = rix(*r);
                let _ = guard("reload", || ms[i].reload())?;
            }
            Op::Reopen { r } => {
                let i = rix(*r);
                // what is staged is lost, like after a restart
                stacks[i].reopen()?;
                match open(stacks[i].ad.clone())? {
                    Ok(m) => ms[i] = m,
                    Err(e) => return viol("C17", format!("[{}+{}] cannot reopen a replica on its storage: {}", b, wn, e)),
                }
                if stacks[i].persistent() {
                    *cnt.entry("replica_reopens_on_persistent_stack").or_insert(0) += 1;
                }
            }
            Op::Resolve { r, obj, leaf } => {
                let i = rix(*r);
                let c: Vec<String> = guard("in_conflict", || ms[i].in_conflict())?.into_iter().collect();
                if !c.is_empty() {
                    let u = &c[gen::sel(*obj, c.len())];
                    let mut leaves: Vec<String> = guard("get_conflicting", || ms[i].get_conflicting(u))?.unwrap_or_default().into_iter().collect();
                    if let Ok(w) = guard("get_winner", || ms[i].get_winner(u))? {
                        leaves.push(w);
                    }
                    leaves.sort_by(|a, b| crate::model::ref_cmp(a, b));
                    let ch = leaves[gen::sel(*leaf, leaves.len())].clone();
                    let _ = guard("resolve_as", || ms[i].resolve_as(u, &ch))?;
                }
            }
            Op::Unstage { r } => {
                let i = rix(*r);
                let _ = guard("unstage", || ms[i].unstage())?;
            }
            Op::Snapshot { r } => {
                let i = rix(*r);
                let _ = guard("stage_full_snapshot", || ms[i].stage_full_snapshot())?;
            }
            _ => {}
        }
        trace.push((obs(&ms[0])?, obs(&ms[1])?));
    }
    // final: commit, reopen both from their storage, compare with the live instances
    for i in 0..2 {
        let _ = guard("commit", || ms[i].commit(None))?;
        // storage may hold melded items the instance has not loaded (refresh refused while staging)
        let _ = guard("refresh", || ms[i].refresh())?;
        let live = obs_full(&ms[i])?;
        stacks[i].reopen()?;
        let m2 = match open(stacks[i].ad.clone())? {
            Ok(m) => m,
            Err(e) => return viol("C17", format!("[{}+{}] cannot reopen a replica on its storage: {}", b, wn, e)),
        };
        let again = obs_full(&m2)?;
        if live != again {
            return viol("C17", format!("[{}+{}] replica reopened on its storage differs from the live one: {}", b, wn, first_diff_full(&live, &again)));
        }
        ms[i] = m2;
    }
    trace.push((obs(&ms[0])?, obs(&ms[1])?));
    Ok(trace)
}

pub fn run_rep(case: &RepCase) -> CaseRes {
    let mut cnt = Counters::new();
    let mut log = vec![];
    let mut steps = 0;
    let res = (|| -> R<()> {
        let reference = run_on_stack(0, &case.ops, &mut cnt)?;
        steps += case.ops.len();
        for si in 1..STACKS.len() {
            let t = run_on_stack(si, &case.ops, &mut cnt)?;
            steps += case.ops.len();
            for (k, (a, b)) in reference.iter().zip(t.iter()).enumerate() {
                if a.0 != b.0 || a.1 != b.1 {
                    let d = if a.0 != b.0 { first_diff(&a.0, &b.0) } else { first_diff(&a.1, &b.1) };
                    return viol("C17", format!("history step {} ({:?}): state over {}+{} differs from state over memory: {}", k, case.ops.get(k).map(|o| o.kind()), STACKS[si].0, STACKS[si].1, d));
                }
            }
            log.push(format!("stack {}+{} equal", STACKS[si].0, STACKS[si].1));
        }
        Ok(())
    })();
    let nontrivial = cnt.get("replica_reopens_on_persistent_stack").cloned().unwrap_or(0) > 0 && case.ops.iter().any(|o| matches!(o, Op::Commit { .. }));
    CaseRes { counters: cnt, nontrivial, result: res, log, steps }
}
