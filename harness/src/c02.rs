//! C02: blocks take effect only when causally complete. A history builds a block graph; its item
//! files are delivered one at a time, in a generated permutation, to a fresh replica with a refresh
//! after every file; after every delivery the replica is compared with (a) a full reload, (b) the
//! reference causal closure of what has arrived, (c) a replica that only ever saw the closure.
use crate::gen::{self, Mix};
use crate::model;
use crate::ops2::FinPlan;
use crate::props::Case;
use crate::runner::CaseRes;
use crate::store::{permute, HStore, Snap};
use crate::world::*;
use proptest::prelude::*;
use serde::{Deserialize, Serialize};

#[derive(Clone, Debug, Serialize, Deserialize)]
pub struct C02Case {
    pub hist: Case,
    pub perm: u64,
    pub listing: Option<u64>,
    /// deliver packs late (bias: true = move every pack after the blocks that need it)
    pub packs_last: bool,
    /// the receiving replica first submits the documents the source replicas submitted last and unstages
    /// them, so every object of the final state sits in its caches (not in its storage) before the
    /// first block arrives
    #[serde(default)]
    pub warm: bool,
    /// torn deliveries: bit k%64 set = item k first arrives damaged (as a file-synchronisation tool that
    /// writes in place would leave it when interrupted), a refresh runs, then the intact bytes replace it
    #[serde(default)]
    pub torn: u64,
    #[serde(default)]
    pub torn_kind: u8,
    /// transient read failures: bit k%64 set = after item k arrived, a first refresh runs while reads of
    /// the receiver's own storage fail (by suffix and mask derived from k); the regular refresh follows
    #[serde(default)]
    pub flaky: u64,
}

pub fn strategy(thorough: bool) -> BoxedStrategy<C02Case> {
    let mix = Mix { update: 9, commit: 7, meldrefresh: 6, filecopy: 1, resolve: 2, timetravel: 1, snapshot: 1, rich: true, rich_info: true, ..Mix::default() };
    let len = if thorough { 60 } else { 30 };
    (2u8..=3, gen::history(&mix, len), any::<u64>(), prop::option::of(any::<u64>()), prop::bool::weighted(0.3), prop::bool::weighted(0.3), prop_oneof![2 => Just(0u64), 1 => any::<u64>(), 1 => (any::<u64>(), any::<u64>()).prop_map(|(a, b)| a & b)], any::<u8>(), prop_oneof![2 => Just(0u64), 1 => any::<u64>(), 1 => (any::<u64>(), any::<u64>()).prop_map(|(a, b)| a & b)])
        .prop_map(|(n, ops, perm, listing, packs_last, warm, torn, torn_kind, flaky)| C02Case {
            hist: Case { n, perms: vec![None; 3], ops, fin: Some(FinPlan { commit: vec![true; 3], deliveries: vec![], final_mode: vec![0; 3] }) },
            perm,
            listing,
            packs_last,
            warm,
            torn,
            torn_kind,
            flaky,
        })
        .boxed()
}

fn deliver(w: &mut World, order: &[String], src: &Snap, full_obs: &Obs, torn: u64, torn_kind: u8, flaky: u64) -> R<()> {
    let mut arrived = Snap::new();
    for (k, name) in order.iter().enumerate() {
        let bytes = &src[name];
        if (torn >> (k % 64)) & 1 == 1 && !bytes.is_empty() {
            // the item first arrives damaged; a refresh runs (it may report an error, it may not change
            // the visible state and must not abort); then the intact bytes replace the damaged ones
            let mut bad = bytes.clone();
            match (torn_kind as usize + k) % 3 {
                0 => bad.truncate(bytes.len() / 2),
                1 => bad.truncate(bytes.len() - 1),
                _ => {
                    let p = (torn_kind as usize * 7 + k * 13) % bad.len();
                    bad[p] ^= 0x20;
                }
            }
            let before = obs(&w.reps[0].m)?;
            w.reps[0].store.set_raw(name, bad);
            if (torn_kind as usize / 3 + k) % 3 == 0 {
                // the application reacts with a full reload instead (it may be refused with an error and then
                // leaves the replica empty until the next successful refresh or reload)
                let r = guard("reload", || w.reps[0].m.reload())?;
                w.log.push(format!("deliver #{} {} DAMAGED first; reload -> {:?}", k, name, r.as_ref().map_err(|e| e.to_string())));
                if r.is_ok() {
                    let after = obs(&w.reps[0].m)?;
                    if before != after {
                        return viol("C02", format!("a damaged copy of {} changed the visible state (reload): {}", name, first_diff(&before, &after)));
                    }
                }
                w.bump("c02_reloads_on_torn_items");
            } else {
                let r = guard("refresh", || w.reps[0].m.refresh())?;
                w.log.push(format!("deliver #{} {} DAMAGED first; refresh -> {:?}", k, name, r.as_ref().map_err(|e| e.to_string())));
                let after = obs(&w.reps[0].m)?;
                if before != after {
                    return viol("C02", format!("a damaged copy of {} changed the visible state: {}", name, first_diff(&before, &after)));
                }
            }
            w.reps[0].store.set_raw(name, bytes.clone());
            w.bump("c02_torn_then_completed_deliveries");
            if name.ends_with(".pack") {
                w.bump("c02_torn_packs");
            }
        }
        w.reps[0].store.put_raw(name, bytes);
        arrived.insert(name.clone(), bytes.clone());
        w.log.push(format!("deliver #{} {}", k, name));
        if (flaky >> (k % 64)) & 1 == 1 {
            // a refresh during which reads of the replica's own storage fail transiently: it may report an
            // error or apply less, it must not abort; the regular refresh below must then catch up fully
            let suffix = [".pack", ".delta", ""][k % 3].to_string();
            let mask = flaky.rotate_left((k % 61) as u32) | 1;
            w.reps[0].store.with(|s| {
                s.read_faults = Some((suffix.clone(), mask));
                s.reads_in_fault = 0;
                s.failed_reads = 0;
            });
            let r = guard("refresh", || w.reps[0].m.refresh());
            let failed = w.reps[0].store.with(|s| {
                s.read_faults = None;
                s.failed_reads
            });
            let r = r?;
            w.log.push(format!("   refresh with failing reads of {:?} (mask {:#x}, {} reads failed) -> {:?}", suffix, mask, failed, r.as_ref().map_err(|e| e.to_string())));
            if failed > 0 {
                w.bump("c02_refreshes_with_failed_reads");
            }
        }
        // refresh + (a) incremental == reload, (b) applied == closure
        w.op_refresh(0)?;
        // (c) nothing held back leaks: equal to a replica that only ever saw the closure
        let clo = model::closure(&arrived);
        let clean = HStore::from_snap(&clo.items(&arrived));
        let m2 = match open(clean.ad())? {
            Ok(m) => m,
            Err(e) => return viol("C02", format!("cannot open a replica on the causal closure: {}", e)),
        };
        let a = obs(&w.reps[0].m)?;
        let b = obs(&m2)?;
        if a != b {
            return viol("C02", format!("after delivering {} the replica differs from one that only holds the causally complete items (held back: {:?}): {}", name, clo.held, first_diff(&a, &b)));
        }
        let heads = anchors_str(&w.reps[0].m)?;
        if heads != clo.heads() {
            return viol("C02", format!("heads {:?} differ from the heads of the causal closure {:?}", heads, clo.heads()));
        }
        if !clo.held.is_empty() {
            w.bump("c02_deliveries_with_held_back");
        }
    }
    let end = obs(&w.reps[0].m)?;
    if &end != full_obs {
        return viol("C02", format!("after all items arrived the replica differs from the source: {}", first_diff(&end, full_obs)));
    }
    Ok(())
}

pub fn run(case: &C02Case, thorough: bool) -> CaseRes {
    // 1. build the block graph
    let mut w = match World::new(case.hist.n as usize, &case.hist.perms, &[]) {
        Ok(w) => w,
        Err(f) => return CaseRes { counters: Counters::new(), nontrivial: false, result: Err(f), log: vec![], steps: 0 },
    };
    let mut steps = 0;
    let mut result: R<()> = Ok(());
    for op in &case.hist.ops {
        steps += 1;
        if let Err(f) = w.step(op) {
            result = Err(f);
            break;
        }
    }
    if result.is_ok() {
        result = w.converge(case.hist.fin.as_ref().unwrap());
    }
    let mut log = std::mem::take(&mut w.log);
    if let Err(f) = result {
        return CaseRes { counters: w.cnt, nontrivial: false, result: Err(f), log, steps };
    }
    let src = w.reps[0].store.snap();
    let warm_docs: Vec<serde_json::Value> = if case.warm { w.reps.iter().filter_map(|r| r.last_doc.clone()).collect() } else { vec![] };
    let full_obs = match obs(&w.reps[0].m) {
        Ok(o) => o,
        Err(f) => return CaseRes { counters: w.cnt, nontrivial: false, result: Err(f), log, steps },
    };
    // 2. delivery order: items in first-written order of the source, permuted
    let mut order: Vec<String> = w.reps[0].store.order();
    permute(&mut order, case.perm);
    if case.packs_last {
        let (packs, rest): (Vec<String>, Vec<String>) = order.iter().cloned().partition(|k| k.ends_with(".pack"));
        order = rest;
        order.extend(packs);
    }
    // classification from the graph
    let pos = |k: &str| order.iter().position(|x| x == k);
    let clo = model::closure(&src);
    let mut child_before_parent = false;
    let mut block_before_pack = false;
    for (n, b) in &clo.applied {
        let me = pos(&format!("{}.delta", n)).unwrap_or(0);
        for p in &b.parents {
            if pos(&format!("{}.delta", p)).map_or(false, |pp| pp > me) {
                child_before_parent = true;
            }
        }
        for p in &b.packs {
            if pos(&format!("{}.pack", p)).map_or(false, |pp| pp > me) {
                block_before_pack = true;
            }
        }
    }
    let mut cnt = Counters::new();
    let mut res: R<()> = Ok(());
    let run_order = |order: &[String], cnt: &mut Counters, log: &mut Vec<String>| -> R<()> {
        let mut w2 = World::new(1, &[case.listing], &["C02"])?;
        for d in &warm_docs {
            w2.submit(0, d.clone(), None)?;
            w2.op_unstage(0)?;
            *cnt.entry("c02_warm_receiver_submissions").or_insert(0) += 1;
        }
        let r = deliver(&mut w2, order, &src, &full_obs, case.torn, case.torn_kind, case.flaky);
        for (k, v) in &w2.cnt {
            *cnt.entry(k).or_insert(0) += v;
        }
        if r.is_err() {
            log.push("-- delivery to a fresh replica".into());
            log.extend(std::mem::take(&mut w2.log));
        }
        r
    };
    if let Err(f) = run_order(&order, &mut cnt, &mut log) {
        res = Err(f);
    }
    steps += order.len();
    // small graphs: every permutation
    let small = if thorough { 5 } else { 4 };
    if res.is_ok() && order.len() >= 2 && order.len() <= small {
        let mut idx: Vec<usize> = (0..order.len()).collect();
        let mut perms = 0;
        // Heap's algorithm, iterative
        let n = idx.len();
        let mut c = vec![0usize; n];
        let mut i = 0;
        loop {
            let o: Vec<String> = idx.iter().map(|&k| order[k].clone()).collect();
            perms += 1;
            if let Err(f) = run_order(&o, &mut cnt, &mut log) {
                res = Err(f);
                break;
            }
            let mut advanced = false;
            while i < n {
                if c[i] < i {
                    if i % 2 == 0 {
                        idx.swap(0, i);
                    } else {
                        idx.swap(c[i], i);
                    }
                    c[i] += 1;
                    i = 0;
                    advanced = true;
                    break;
                } else {
                    c[i] = 0;
                    i += 1;
                }
            }
            if !advanced {
                break;
            }
        }
        *cnt.entry("c02_small_graphs_all_permutations").or_insert(0) += 1;
        *cnt.entry("c02_permutations_run").or_insert(0) += perms;
    }
    if child_before_parent {
        *cnt.entry("c02_child_before_parent").or_insert(0) += 1;
    }
    if block_before_pack {
        *cnt.entry("c02_block_before_pack").or_insert(0) += 1;
    }
    let nontrivial = child_before_parent && block_before_pack && order.len() >= 4;
    CaseRes { counters: cnt, nontrivial, result: res, log, steps }
}
