//! C11 "stacks" part: the storage invariants observed through the Adapter API of real backends
//! (memory, memory+Deflate, memory+Brotli, directory+Deflate), with occasional large items.
use crate::c17::{Stack, STACKS};
use crate::gen::{self, info_map, Mix, Node, Op};
use crate::model;
use crate::runner::CaseRes;
use crate::world::*;
use melda::melda::Melda;
use proptest::prelude::*;
use serde::{Deserialize, Serialize};
use serde_json::Value;
use std::collections::{BTreeMap, BTreeSet};

#[derive(Clone, Debug, Serialize, Deserialize)]
pub struct StackCase {
    pub ops: Vec<Op>,
    /// a large, poorly compressible string (KB) put into the content at op index `at` and into the next commit's metadata
    pub big_kb: u16,
    pub big_seed: u64,
    pub at: u8,
}

pub fn strategy() -> BoxedStrategy<StackCase> {
    let mix = Mix { update: 10, commit: 8, meldrefresh: 7, meld: 2, refresh: 1, reload: 0, reopen: 1, filecopy: 0, resolve: 2, unstage: 0, stagert: 0, snapshot: 1, timetravel: 0, lowlevel: 0, mergecommit: 2, churn: 1, faultycommit: 0, foreign: 0, faultymeld: 0, snaprace: 0, tornblock: 0, rich: false, rich_info: true };
    (gen::history(&mix, 20), prop_oneof![2 => Just(0u16), 1 => 20u16..90, 2 => 90u16..400], any::<u64>(), any::<u8>())
        .prop_map(|(ops, big_kb, big_seed, at)| StackCase { ops, big_kb, big_seed, at })
        .boxed()
}

fn big_string(seed: u64, kb: u16) -> String {
    let mut s = seed;
    let mut out = String::with_capacity(kb as usize * 1024);
    while out.len() < kb as usize * 1024 {
        out.push_str(&format!("{:016x}", crate::store::splitmix(&mut s)));
    }
    out
}

/// storage invariants through the adapter API; `universe` carries what was seen before
fn check_storage(name: &str, stacks: &[Stack], universe: &mut BTreeMap<String, Vec<u8>>, prev: &mut Vec<BTreeSet<String>>, cnt: &mut Counters) -> R<()> {
    for (i, st) in stacks.iter().enumerate() {
        let keys = guard("list_objects", || st.ad.read().unwrap().list_objects(""))?.map_err(|e| Fail::Violation { prop: "C11", msg: format!("[{}] listing failed: {}", name, e) })?;
        let keyset: BTreeSet<String> = keys.iter().cloned().collect();
        if let Some(k) = prev[i].iter().find(|k| !keyset.contains(*k)) {
            return viol("C11", format!("[{}] item {} disappeared from replica {}", name, k, i));
        }
        for k in &keys {
            let bytes = match guard("read_object", || st.ad.read().unwrap().read_object(k, 0, 0))? {
                Ok(b) => b,
                Err(e) => return viol("C11", format!("[{}] item {} of replica {} cannot be read back: {}", name, k, i, e)),
            };
            if let Some(old) = universe.get(k) {
                if old != &bytes {
                    return viol("C11", format!("[{}] item {} reads {} bytes on replica {} but {} bytes elsewhere/earlier", name, k, bytes.len(), i, old.len()));
                }
                continue;
            }
            if let Some(stem) = k.strip_suffix(".pack") {
                if model::sha_hex(&bytes) != stem {
                    return viol("C11", format!("[{}] pack {} ({} bytes as read back) is not named by the SHA-256 of its bytes", name, k, bytes.len()));
                }
            } else if let Some(stem) = k.strip_suffix(".delta") {
                let h = stem.split_once('-').map(|x| x.1).unwrap_or("");
                if model::sha_hex(&bytes) != h {
                    return viol("C11", format!("[{}] block {} ({} bytes as read back) is not named by the SHA-256 of its bytes", name, k, bytes.len()));
                }
                if model::parse_block(stem, &bytes).is_none() {
                    return viol("C11", format!("[{}] block {} does not carry index = 1 + highest parent index or is malformed", name, k));
                }
            } else {
                return viol("C11", format!("[{}] replica {} holds an item that is neither block nor pack: {}", name, i, k));
            }
            if bytes.len() > 60_000 {
                *cnt.entry("large_items_checked").or_insert(0) += 1;
            }
            universe.insert(k.clone(), bytes);
        }
        prev[i] = keyset;
    }
    Ok(())
}

fn run_stack(si: usize, c: &StackCase, cnt: &mut Counters) -> R<()> {
    let (b, wn) = STACKS[si];
    let name = format!("{}+{}", b, wn);
    let mut stacks = vec![Stack::new(b, wn)?, Stack::new(b, wn)?];
    let mut ms: Vec<Melda> = vec![];
    for s in &stacks {
        match open(s.ad.clone())? {
            Ok(m) => ms.push(m),
            Err(e) => return viol("C11", format!("[{}] cannot open a replica: {}", name, e)),
        }
    }
    let mut universe = BTreeMap::new();
    let mut prev = vec![BTreeSet::new(), BTreeSet::new()];
    let big = if c.big_kb > 0 { Some(big_string(c.big_seed, c.big_kb)) } else { None };
    let mut big_info_pending = false;
    let rix = |r: u8| ((r as usize) * 2) >> 8;
    for (k, op) in c.ops.iter().enumerate() {
        match op {
            Op::Update { r, edit } | Op::MergeCommit { r, edit, .. } => {
                let i = rix(*r);
                if let Op::MergeCommit { .. } = op {
                    let j = 1 - i;
                    let _ = guard("commit", || ms[j].commit(None))?;
                    let (a, bb) = if i < j {
                        let (x, y) = ms.split_at_mut(j);
                        (&mut x[i], &y[0])
                    } else {
                        let (x, y) = ms.split_at_mut(i);
                        (&mut y[0], &x[j])
                    };
                    let _ = guard("meld", || a.meld(bb))?;
                    let _ = guard("refresh", || a.refresh())?;
                }
                let base = match read_doc(&ms[i])? {
                    Ok(d) => Node::from_value(&d),
                    Err(_) => Node::default(),
                };
                let mut node = base;
                gen::apply_edit(&mut node, edit);
                if let (Some(bs), true) = (&big, k as u8 >= c.at % 6) {
                    if !node.fields.contains_key("big") {
                        node.fields.insert("big".into(), Value::from(bs.clone()));
                        big_info_pending = true;
                    }
                }
                let d = node.to_value().as_object().cloned().unwrap_or_default();
                let _ = guard("update", || ms[i].update(d))?;
                if let Op::MergeCommit { .. } = op {
                    let _ = guard("commit", || ms[i].commit(None))?;
                }
            }
            Op::Commit { r, info } => {
                let i = rix(*r);
                let mut inf = info_map(info);
                if big_info_pending {
                    if let Some(bs) = &big {
                        inf.get_or_insert_with(Default::default).insert("note".into(), Value::from(bs.chars().rev().collect::<String>()));
                        big_info_pending = false;
                    }
                }
                if let Err(e) = guard("commit", || ms[i].commit(inf))? {
                    return viol("C11", format!("[{}] commit failed: {}", name, e));
                }
            }
            Op::MeldRefresh { r, .. } | Op::Meld { r, .. } => {
                let i = rix(*r);
                let j = 1 - i;
                let (a, bb) = if i < j {
                    let (x, y) = ms.split_at_mut(j);
                    (&mut x[i], &y[0])
                } else {
                    let (x, y) = ms.split_at_mut(i);
                    (&mut y[0], &x[j])
                };
                let _ = guard("meld", || a.meld(bb))?;
                if let Op::MeldRefresh { .. } = op {
                    let _ = guard("refresh", || a.refresh())?;
                }
            }
            Op::Refresh { r } => {
                let i = rix(*r);
                let _ = guard("refresh", || ms[i].refresh())?;
            }
            Op::Reopen { r } => {
                let i = rix(*r);
                stacks[i].reopen()?;
                match open(stacks[i].ad.clone())? {
                    Ok(m) => ms[i] = m,
                    Err(e) => return viol("C11", format!("[{}] a replica cannot be reopened on the items it wrote itself: {}", name, e)),
                }
            }
            Op::Resolve { r, obj, leaf } => {
                let i = rix(*r);
                let cf: Vec<String> = guard("in_conflict", || ms[i].in_conflict())?.into_iter().collect();
                if !cf.is_empty() {
                    let u = &cf[gen::sel(*obj, cf.len())];
                    let mut leaves: Vec<String> = guard("get_conflicting", || ms[i].get_conflicting(u))?.unwrap_or_default().into_iter().collect();
                    if let Ok(w) = guard("get_winner", || ms[i].get_winner(u))? {
                        leaves.push(w);
                    }
                    leaves.sort_by(|a, b| model::ref_cmp(a, b));
                    let ch = leaves[gen::sel(*leaf, leaves.len())].clone();
                    let _ = guard("resolve_as", || ms[i].resolve_as(u, &ch))?;
                }
            }
            Op::Snapshot { r } => {
                let i = rix(*r);
                let _ = guard("stage_full_snapshot", || ms[i].stage_full_snapshot())?;
            }
            _ => {}
        }
        check_storage(&name, &stacks, &mut universe, &mut prev, cnt)?;
    }
    // final: both commit, exchange, every item must be everywhere with equal bytes and reopenable
    for i in 0..2 {
        let _ = guard("commit", || ms[i].commit(None))?;
    }
    for (i, j) in [(0usize, 1usize), (1, 0), (0, 1)] {
        let (a, bb) = if i < j {
            let (x, y) = ms.split_at_mut(j);
            (&mut x[i], &y[0])
        } else {
            let (x, y) = ms.split_at_mut(i);
            (&mut y[0], &x[j])
        };
        let _ = guard("refresh", || a.refresh())?;
        let _ = guard("meld", || a.meld(bb))?;
        let _ = guard("refresh", || a.refresh())?;
    }
    check_storage(&name, &stacks, &mut universe, &mut prev, cnt)?;
    if prev[0] != prev[1] {
        return viol("C11", format!("[{}] after a complete exchange the replicas hold different item sets", name));
    }
    for i in 0..2 {
        stacks[i].reopen()?;
        if let Err(e) = open(stacks[i].ad.clone())? {
            return viol("C11", format!("[{}] replica {} cannot be reopened on its items: {}", name, i, e));
        }
    }
    Ok(())
}

pub fn run(c: &StackCase) -> CaseRes {
    let mut cnt = Counters::new();
    let mut res: R<()> = Ok(());
    // memory, memory+flate, memory+brotli, dir+flate
    for si in [0usize, 1, 2, 4] {
        if let Err(f) = run_stack(si, c, &mut cnt) {
            res = Err(f);
            break;
        }
    }
    let res = match res {
        Err(Fail::Panic { op, msg }) if op.contains("object") || op.contains("adapter") => viol("C11", format!("backend operation {} aborted: {}", op, msg)),
        x => x,
    };
    let nontrivial = cnt.get("large_items_checked").cloned().unwrap_or(0) > 0;
    CaseRes { counters: cnt, nontrivial, result: res, log: vec![], steps: c.ops.len() * 4 }
}
