//! C19 replica level: two replicas with the same base make the same edit independently; they must
//! obtain the same revision identifiers and no conflict may arise from it.
use crate::gen::{self, EditStep, Mix};
use crate::ops2::FinPlan;
use crate::props::Case;
use crate::runner::CaseRes;
use crate::world::*;
use proptest::prelude::*;
use serde::{Deserialize, Serialize};

#[derive(Clone, Debug, Serialize, Deserialize)]
pub struct TwinCase {
    pub hist: Case,
    pub edits: Vec<Vec<EditStep>>,
}

pub fn strategy() -> BoxedStrategy<TwinCase> {
    let mix = Mix { update: 10, commit: 6, meldrefresh: 6, resolve: 2, filecopy: 0, timetravel: 0, ..Mix::default() };
    (gen::history(&mix, 30), proptest::collection::vec(gen::edit(true), 1..4))
        .prop_map(|(ops, edits)| TwinCase {
            hist: Case { n: 2, perms: vec![None; 2], ops, fin: Some(FinPlan { commit: vec![true; 2], deliveries: vec![], final_mode: vec![0; 2] }) },
            edits,
        })
        .boxed()
}

pub fn run(case: &TwinCase) -> CaseRes {
    let mut w = match World::new(2, &case.hist.perms, &["C19"]) {
        Ok(w) => w,
        Err(f) => return CaseRes { counters: Counters::new(), nontrivial: false, result: Err(f), log: vec![], steps: 0 },
    };
    let mut steps = 0;
    let mut nontrivial = false;
    let res = (|| -> R<()> {
        for op in &case.hist.ops {
            steps += 1;
            w.step(op)?;
        }
        let fin = case.hist.fin.as_ref().unwrap();
        w.converge(fin)?;
        let a0 = obs(&w.reps[0].m)?;
        let b0 = obs(&w.reps[1].m)?;
        if a0 != b0 {
            // convergence is C01's business; the twin experiment needs a common base
            return Ok(());
        }
        let conflicts_before = a0.in_conflict.clone();
        for e in &case.edits {
            w.log.push("-- twin edit on both replicas".into());
            w.op_update(0, e)?;
            w.op_update(1, e)?;
            let a = obs(&w.reps[0].m)?;
            let b = obs(&w.reps[1].m)?;
            if a.winners != b.winners {
                let k = a.winners.iter().find(|(k, v)| b.winners.get(*k) != Some(*v)).map(|(k, v)| format!("{:?}: {} vs {:?}", k, v, b.winners.get(k)));
                return viol("C19", format!("the same edit of the same version on two replicas produced different revisions: {:?}", k));
            }
            if a != b {
                return viol("C19", format!("the same edit of the same version on two replicas produced different states: {}", first_diff(&a, &b)));
            }
            if a.winners != a0.winners {
                nontrivial = true;
            }
        }
        w.op_commit(0, None)?;
        w.op_commit(1, None)?;
        w.converge(fin)?;
        let a = obs(&w.reps[0].m)?;
        let extra: Vec<&String> = a.in_conflict.iter().filter(|x| !conflicts_before.contains(*x)).collect();
        if !extra.is_empty() {
            return viol("C19", format!("independently made identical edits are in conflict after the exchange: {:?}", extra));
        }
        Ok(())
    })();
    CaseRes { counters: std::mem::take(&mut w.cnt), nontrivial, result: res, log: std::mem::take(&mut w.log), steps }
}
