//! Property configurations for the history-driven checks, the Case type and the case runner.
use crate::gen::{self, Mix, Op};
use crate::ops2::FinPlan;
use crate::world::*;
use proptest::collection::vec;
use proptest::prelude::*;
use serde::{Deserialize, Serialize};

#[derive(Clone, Debug, PartialEq, Serialize, Deserialize)]
pub struct Case {
    pub n: u8,
    pub perms: Vec<Option<u64>>,
    pub ops: Vec<Op>,
    pub fin: Option<FinPlan>,
}

pub struct HistCfg {
    pub id: &'static str,
    pub on: Vec<&'static str>,
    pub mix: Mix,
    pub max_len: usize,
    pub n_min: u8,
    pub n_max: u8,
    pub with_fin: bool,
    /// non-triviality rule over the counters of one case
    pub nontrivial: fn(&Counters) -> bool,
    pub rule: &'static str,
}

fn c(k: &Counters, key: &str) -> u64 {
    k.get(key).cloned().unwrap_or(0)
}

pub fn hist_cfg(id: &str, thorough: bool) -> Option<HistCfg> {
    let len = |q: usize, t: usize| if thorough { t } else { q };
    let base = Mix::default();
    Some(match id {
        "C01" => HistCfg {
            id: "C01",
            on: vec!["C01"],
            mix: Mix { rich: true, faultymeld: 1, ..base },
            max_len: len(60, 140),
            n_min: 2,
            n_max: if thorough { 4 } else { 3 },
            with_fin: true,
            nontrivial: |k| {
                (c(k, "hist_has_merge_block") > 0 || c(k, "hist_has_concurrent_branches") > 0)
                    && c(k, "hist_has_multi_object_commit") > 0
                    && (c(k, "partial_filecopies") > 0 || c(k, "states_with_held_back_blocks") > 0 || c(k, "filecopies") > 0)
            },
            rule: "history over 2-4 replicas followed by a generated delivery plan and a complete exchange; non-trivial = block graph has a merge or concurrent branches, some commit carries >=2 change records, and some delivery was a raw (partial / permuted) file copy",
        },
        "C02" => HistCfg {
            id: "C02",
            on: vec!["C02"],
            mix: Mix { filecopy: 5, refresh: 3, reload: 2, meldrefresh: 4, meld: 2, commit: 7, unstage: 2, rich: true, ..base },
            max_len: len(60, 120),
            n_min: 2,
            n_max: 3,
            with_fin: true,
            nontrivial: |k| c(k, "states_with_held_back_blocks") > 0 && c(k, "c02_refresh_checked") > 1,
            rule: "multi-replica history with many raw (partial, permuted) file copies, melds without refresh, failed commits and unstaged edits; after every refresh / reload of a long-lived replica: every causally complete block is applied, the applied set equals the reference causal closure of its storage (hook), and the replica equals a freshly opened one; non-trivial = some refresh happened while blocks were held back",
        },
        "C03" => HistCfg {
            id: "C03",
            on: vec!["C03"],
            mix: Mix { update: 12, commit: 6, resolve: 3, snapshot: 2, meldrefresh: 4, timetravel: 0, faultycommit: 2, rich: true, rich_info: true, ..base },
            max_len: len(40, 100),
            n_min: 1,
            n_max: 3,
            with_fin: false,
            nontrivial: |k| {
                c(k, "c03_commits_checked") > 0
                    && (c(k, "c03_commits_with_chain_ge2") > 0 || c(k, "c03_commits_with_tricky_strings") > 0 || c(k, "c03_commits_with_exponent_floats") > 0)
            },
            rule: "history with rich JSON contents (and occasional commits during which one storage write fails, later retried); every successful commit is followed by opening a fresh replica on the same storage and comparing the full observation; non-trivial = a checked commit whose stage held >=2 revisions of one object, or strings with braces/quotes/backslashes, or floats in exponent form",
        },
        "C04" => HistCfg {
            id: "C04",
            on: vec!["C04"],
            mix: Mix { update: 14, commit: 4, meldrefresh: 5, resolve: 1, rich: true, ..base },
            max_len: len(40, 100),
            n_min: 1,
            n_max: 3,
            with_fin: false,
            nontrivial: |k| {
                c(k, "c04_updates_with_move_between_arrays") > 0 || c(k, "c04_updates_with_kind_change") > 0 || c(k, "c04_updates_with_object_conflict") > 0 || c(k, "c04_conflict_case_readbacks") > 0
            },
            rule: "history in which every update is followed by read() compared with the submitted document (exactly, or as a multiset of tracked objects while an array is in conflict), a second identical submission, and commit-after-commit; non-trivial = an update moving an element between arrays, changing the kind of a flattened key, or submitted while an object/array conflict exists",
        },
        "C05" => HistCfg {
            id: "C05",
            on: vec!["C05"],
            mix: Mix { resolve: 4, update: 9, ..base },
            max_len: len(60, 140),
            n_min: 2,
            n_max: 3,
            with_fin: true,
            nontrivial: |k| c(k, "c05_nontrivial_tree") > 0,
            rule: "multi-replica history; after every step the recorded revisions of every object are rebuilt from the raw block files + stage export and the reference rule (live leaves, fixed order) is compared with get_winner/get_conflicting/in_conflict and the tree dump; non-trivial = some object with >=2 live leaves and a resolution marker, a dangling parent or an index >= 10",
        },
        "C06" => HistCfg {
            id: "C06",
            on: vec!["C06"],
            mix: Mix { update: 12, commit: 6, meldrefresh: 8, filecopy: 1, resolve: 1, timetravel: 0, snapshot: 1, ..base },
            max_len: len(60, 140),
            n_min: 2,
            n_max: 3,
            with_fin: true,
            nontrivial: |k| c(k, "c06_nontrivial_arrays") > 0,
            rule: "multi-replica history with concurrent array edits; after every refresh and at the end each shown array is checked against the union of its live versions (rebuilt with the reference script applier); non-trivial = an array with >=2 live versions that differ by more than pure insertion or disagree on order",
        },
        "C07" => HistCfg {
            id: "C07",
            on: vec!["C07", "C01"],
            mix: Mix { resolve: 8, update: 9, meldrefresh: 8, commit: 6, timetravel: 0, stagert: 3, ..base },
            max_len: len(60, 120),
            n_min: 2,
            n_max: 3,
            with_fin: true,
            nontrivial: |k| c(k, "c07_chosen_not_winner") > 0 || c(k, "c07_deletion_chosen_while_referenced") > 0 || c(k, "c07_array_resolutions") > 0,
            rule: "conflict-biased history; every Resolve picks a conflicted object and one of its live leaves; oracle on conflict set, value, document and (arrays) element set/order, then commit + complete exchange must converge; non-trivial = chosen leaf is not the winner, or is a deletion while still referenced, or an array was resolved",
        },
        "C08" => HistCfg {
            id: "C08",
            on: vec!["C08"],
            mix: Mix { lowlevel: 3, resolve: 3, unstage: 2, stagert: 2, snapshot: 2, faultycommit: 2, ..base },
            max_len: len(60, 120),
            n_min: 2,
            n_max: 3,
            with_fin: true,
            nontrivial: |k| c(k, "commits_with_staging_in_conflict") > 0 || c(k, "refresh_with_held_back_blocks") > 0 || (c(k, "resolves") > 0 && c(k, "unstages") > 0),
            rule: "history with all operation kinds incl. low-level object calls and commits during which one storage write fails, under a watchdog; every getter is called after every step; non-trivial = a commit with staged changes while something is in conflict, or a refresh with held-back blocks, or resolve + unstage in one history",
        },
        "C11" => HistCfg {
            id: "C11",
            on: vec!["C11"],
            mix: Mix { rich_info: true, commit: 7, meldrefresh: 6, meld: 3, filecopy: 3, foreign: 2, faultymeld: 2, tornblock: 2, ..base },
            max_len: len(50, 120),
            n_min: 2,
            n_max: 4,
            with_fin: true,
            nontrivial: |k| c(k, "c11_rich_info_blocks") > 0 && c(k, "melds_copying_items") > 0,
            rule: "history with rich commit metadata; after every step every item on every replica is checked for name = SHA-256(bytes) (+ block index), storage growth only, no attempted overwrite with different bytes, equal bytes wherever held; files that are neither block nor pack (7 names, 0-5000 bytes) appear in storages and are carried along by meld: they are exempt from the naming rule but must arrive byte-identical and are never rewritten; block files that arrive half-written in one replica's storage (and are completed later) must never be passed on by meld; non-trivial = blocks with non-trivial metadata were melded",
        },
        "C12" => HistCfg {
            id: "C12",
            on: vec!["C12"],
            mix: Mix { snapshot: 4, commit: 7, meldrefresh: 7, meld: 3, refresh: 3, reload: 3, lowlevel: 1, update: 10, faultycommit: 1, ..base },
            max_len: len(60, 120),
            n_min: 2,
            n_max: 3,
            with_fin: false,
            nontrivial: |k| c(k, "commits_auto_resolving_array") > 0 || c(k, "c12_snapshots_with_array_conflict") > 0,
            rule: "history reaching array/object conflicts with staged changes; document compared before/after commit, stage_full_snapshot, meld, and refresh/reload when nothing is pending; non-trivial = a commit that auto-resolved an array conflict or a snapshot taken with an array in conflict",
        },
        "C13" => HistCfg {
            id: "C13",
            on: vec!["C13"],
            mix: Mix { rich_info: true, timetravel: 2, commit: 7, faultymeld: 1, ..base },
            max_len: len(60, 120),
            n_min: 2,
            n_max: 4,
            with_fin: true,
            nontrivial: |k| c(k, "c13_commits_with_2_parents") > 0 || c(k, "c13_heads_with_held_back") > 0 || c(k, "c13_commits_after_time_travel") > 0,
            rule: "history; after every commit: one new block, parents = previous heads, index, sole head; after every step: applied set ancestor-closed, heads rule, get_delta vs raw file vs submitted metadata; non-trivial = commit with >=2 parents, heads computed while blocks are held back, or commit after time travel",
        },
        "C14" => HistCfg {
            id: "C14",
            on: vec!["C14"],
            mix: Mix { timetravel: 6, commit: 7, meldrefresh: 7, reload: 2, rich: true, ..base },
            max_len: len(60, 120),
            n_min: 2,
            n_max: 3,
            with_fin: false,
            nontrivial: |k| c(k, "c14_nontrivial_travels") > 0,
            rule: "history with merges and rich JSON contents (strings with quotes, braces, backslashes, non-ASCII; all number kinds); TimeTravel reloads to a head set the replica had earlier; oracle: observation = recorded one, heads, applied = ancestry, every revision's (value,parent) as first seen, new_until, and reload returns to latest; non-trivial = multi-head target or ancestry with a merge, with blocks outside the ancestry",
        },
        "C15" => HistCfg {
            id: "C15",
            on: vec!["C15"],
            mix: Mix { faultycommit: 2, unstage: 5, stagert: 6, resolve: 4, lowlevel: 3, refresh: 2, reload: 2, timetravel: 2, update: 10, ..base },
            max_len: len(60, 120),
            n_min: 2,
            n_max: 3,
            with_fin: false,
            nontrivial: |k| c(k, "c15_rich_stage") > 0 || c(k, "c15_stage_with_marker") > 0,
            rule: "history with unstage and export/unstage/replay round trips, refresh/reload/reload_until attempted with staged changes, commits during which one storage write fails (the changes must stay staged); non-trivial = a discarded or replayed stage holding at least three of: revision chain >=2, creation, deletion, resolution marker (or any marker)",
        },
        "C16" => HistCfg {
            id: "C16",
            on: vec!["C16", "C03"],
            mix: Mix { update: 12, commit: 5, meldrefresh: 7, snapshot: 3, resolve: 1, reopen: 2, unstage: 1, filecopy: 1, timetravel: 0, ..base },
            max_len: len(50, 110),
            n_min: 2,
            n_max: 3,
            with_fin: true,
            nontrivial: |k| c(k, "c16_new_versions_while_an_array_is_in_conflict") > 0 && c(k, "c16_new_versions_checked") >= 5,
            rule: "multi-replica history with concurrent edits of the same flattened arrays, snapshots, commits and reopenings; every array version stored by an update (new revision of the array descriptor) is rebuilt from the stored descriptors with the reference script applier and must equal the submitted array, also while the array is in conflict (script against the winner's own order, not the merged view) and whatever is cached; after every commit a freshly opened replica must show the same arrays; non-trivial = >=5 versions checked, one of them created while an array was in conflict",
        },
        "C19" => HistCfg {
            id: "C19",
            on: vec!["C19"],
            mix: Mix { resolve: 3, lowlevel: 2, unstage: 2, ..base },
            max_len: len(50, 100),
            n_min: 2,
            n_max: 3,
            with_fin: true,
            nontrivial: |k| c(k, "c19_revision_strings_checked") > 20 && c(k, "resolves") > 0,
            rule: "history; every revision string handed out by the API or stored in a tree parses and prints back identically; non-trivial = >20 strings checked in a history containing a resolution",
        },
        _ => return None,
    })
}

pub fn fin_plan(n_max: u8) -> BoxedStrategy<FinPlan> {
    let dmix = Mix {
        update: 0,
        commit: 0,
        meldrefresh: 3,
        meld: 2,
        refresh: 2,
        reload: 1,
        reopen: 1,
        filecopy: 5,
        resolve: 0,
        unstage: 0,
        stagert: 0,
        snapshot: 0,
        timetravel: 0,
        lowlevel: 0,
        mergecommit: 0,
        churn: 0,
        faultycommit: 0,
        foreign: 0,
        faultymeld: 0,
        snaprace: 0,
        tornblock: 0,
        rich: false,
        rich_info: false,
    };
    (vec(any::<bool>(), n_max as usize), vec(gen::op(&dmix), 0..8), vec(0u8..3, n_max as usize))
        .prop_map(|(commit, deliveries, final_mode)| FinPlan { commit, deliveries, final_mode })
        .boxed()
}

pub fn case_strategy(cfg: &HistCfg) -> BoxedStrategy<Case> {
    let fin = if cfg.with_fin { fin_plan(cfg.n_max).prop_map(Some).boxed() } else { Just(None).boxed() };
    (cfg.n_min..=cfg.n_max, vec(prop::option::of(any::<u64>()), cfg.n_max as usize), gen::history(&cfg.mix, cfg.max_len), fin)
        .prop_map(|(n, perms, ops, fin)| Case { n, perms, ops, fin })
        .boxed()
}

pub struct CaseOutcome {
    pub counters: Counters,
    pub log: Vec<String>,
    pub result: Result<(), Fail>,
    pub steps: usize,
}

pub fn run_case(cfg: &HistCfg, case: &Case) -> CaseOutcome {
    let mut w = match World::new(case.n.max(1) as usize, &case.perms, &cfg.on) {
        Ok(w) => w,
        Err(f) => return CaseOutcome { counters: Counters::new(), log: vec![], result: Err(f), steps: 0 },
    };
    let mut steps = 0;
    let mut result = Ok(());
    for op in &case.ops {
        steps += 1;
        if let Err(f) = w.step(op) {
            result = Err(f);
            break;
        }
    }
    if result.is_ok() {
        if let Some(fin) = &case.fin {
            w.complete_torn(None);
            result = w.converge(fin);
        }
    }
    CaseOutcome { counters: w.cnt.clone(), log: std::mem::take(&mut w.log), result, steps }
}
