//! Byte-level decoder for the coverage-guided fuzz target: turns the fuzzer's bytes into a Case
//! (same types as the proptest strategies produce). Every loop is bounded by a decoded count and an
//! exhausted input yields zeros, so decoding always terminates.
use crate::gen::{Content, EditStep, FlatKind, Op, J};
use crate::ops2::FinPlan;
use crate::props::Case;

pub struct Cur<'a> {
    d: &'a [u8],
    p: usize,
}

impl<'a> Cur<'a> {
    pub fn new(d: &'a [u8]) -> Self {
        Cur { d, p: 0 }
    }
    pub fn u8(&mut self) -> u8 {
        let v = self.d.get(self.p).cloned().unwrap_or(0);
        self.p += 1;
        v
    }
    pub fn u16(&mut self) -> u16 {
        u16::from_le_bytes([self.u8(), self.u8()])
    }
    pub fn u64(&mut self) -> u64 {
        let mut b = [0u8; 8];
        for x in b.iter_mut() {
            *x = self.u8();
        }
        u64::from_le_bytes(b)
    }
    pub fn flag(&mut self) -> bool {
        self.u8() & 1 == 1
    }
}

const STRS: [&str; 12] = ["x", "a}b{\"c\\", "!bang", "^caret", "}", "{", "\\", "é√♭", "", "_deleted", "tail\\", "q\"}"];

fn j(c: &mut Cur, depth: u8) -> J {
    match c.u8() % if depth >= 2 { 9 } else { 11 } {
        0 => J::N,
        1 => J::B(c.flag()),
        2 => J::I((c.u8() as i64) - 3),
        3 => J::I(c.u64() as i64),
        4 => J::U(c.u64()),
        5 => {
            let b = c.u64();
            J::F(if (b >> 52) & 0x7ff == 0x7ff { b & !(1 << 62) } else { b })
        }
        6 => J::F((((c.u16() as i64) - 30000) as f64 / [1.0, 10.0, 100.0, 1000.0][(c.u8() % 4) as usize]).to_bits()),
        7 => J::S(STRS[(c.u8() as usize) % STRS.len()].to_string()),
        8 => {
            let n = c.u8() % 6;
            J::S((0..n).map(|_| char::from_u32(0x20 + (c.u8() as u32 % 0x5f)).unwrap_or('?')).collect())
        }
        9 => {
            let n = c.u8() % 4;
            J::A((0..n).map(|_| j(c, depth + 1)).collect())
        }
        _ => {
            let n = c.u8() % 4;
            let mut seen = std::collections::BTreeSet::new();
            J::O((0..n)
                .map(|_| (["k", "_id", "#", "x♭", "", "a b", "{", "\""][(c.u8() % 8) as usize].to_string(), j(c, depth + 1)))
                .filter(|(k, _)| seen.insert(k.clone()))
                .collect())
        }
    }
}

fn content(c: &mut Cur) -> Content {
    let f = c.u8();
    Content { v: if f & 3 != 0 { Some(j(c, 0)) } else { None }, n: if f & 12 == 12 { Some(j(c, 1)) } else { None } }
}

fn flatkind(c: &mut Cur) -> FlatKind {
    match c.u8() % 4 {
        0 => FlatKind::Absent,
        1 => FlatKind::EmptyArr,
        2 => FlatKind::Obj { id: if c.flag() { Some(c.u16()) } else { None }, content: content(c) },
        _ => FlatKind::Scalar(j(c, 2)),
    }
}

fn edit_step(c: &mut Cur) -> EditStep {
    match c.u8() % 16 {
        0..=3 => EditStep::Insert { arr: c.u16(), pos: c.u16(), id: c.u16(), content: content(c) },
        4 | 5 => EditStep::Remove { elem: c.u16() },
        6 | 7 => EditStep::Move { elem: c.u16(), arr: c.u16(), pos: c.u16() },
        8 | 9 => EditStep::SetField { obj: c.u16(), key: c.u8() % 5, val: if c.u8() % 6 == 0 { None } else { Some(j(c, 0)) } },
        10 => EditStep::SetFlat { obj: c.u16(), key: c.u8() % 4, kind: flatkind(c) },
        11 => EditStep::Reverse { arr: c.u16() },
        12 => EditStep::Rotate { arr: c.u16() },
        13 => EditStep::RemoveKey { arr: c.u16() },
        14 => {
            let n = c.u8() % 7;
            EditStep::Replace { items: (0..n).map(|_| (c.u16(), c.u16(), content(c))).collect(), t: if c.flag() { Some(j(c, 0)) } else { None }, o: flatkind(c) }
        }
        15 if c.flag() => EditStep::Bulk { arr: c.u16(), n: 5 + c.u8() % 25, v: if c.flag() { Some(j(c, 2)) } else { None } },
        _ => EditStep::Clear,
    }
}

fn info(c: &mut Cur) -> Option<Vec<(String, J)>> {
    match c.u8() % 4 {
        0 => None,
        1 => Some(vec![]),
        _ => {
            let n = 1 + c.u8() % 3;
            let mut seen = std::collections::BTreeSet::new();
            Some((0..n).map(|_| (["n", "f", "é", "{\"", "a b"][(c.u8() % 5) as usize].to_string(), j(c, 0))).filter(|(k, _)| seen.insert(k.clone())).collect())
        }
    }
}

fn op(c: &mut Cur, delivery_only: bool) -> Op {
    let r = c.u8();
    let k = c.u8() % if delivery_only { 8 } else { 40 };
    if delivery_only {
        return match k {
            0 | 1 => Op::MeldRefresh { r, from: c.u8() },
            2 => Op::Meld { r, from: c.u8() },
            3 => Op::Refresh { r },
            4 => Op::Reload { r },
            5 => Op::Reopen { r },
            _ => Op::FileCopy { r, from: c.u8(), count: c.u16(), perm: c.u64(), refresh_each: c.flag() },
        };
    }
    match k {
        0..=11 => {
            let n = 1 + c.u8() % 3;
            Op::Update { r, edit: (0..n).map(|_| edit_step(c)).collect() }
        }
        12..=17 => Op::Commit { r, info: info(c) },
        18..=23 => Op::MeldRefresh { r, from: c.u8() },
        24 => Op::Meld { r, from: c.u8() },
        25 => Op::Refresh { r },
        26 => Op::Reload { r },
        27 => Op::Reopen { r },
        28 | 29 => Op::FileCopy { r, from: c.u8(), count: c.u16(), perm: c.u64(), refresh_each: c.flag() },
        30..=32 => Op::Resolve { r, obj: c.u16(), leaf: c.u16() },
        33 => Op::Unstage { r },
        34 | 35 => Op::StageRoundTrip { r },
        36 => Op::Snapshot { r },
        37 | 38 => Op::TimeTravel { r, heads: c.u16() },
        39 if c.flag() => Op::Churn { r, n: 9 + c.u8() % 5, commit_each: c.flag() },
        39 => {
            let n = 1 + c.u8() % 2;
            Op::MergeCommit { r, from: c.u8(), edit: (0..n).map(|_| edit_step(c)).collect() }
        }
        _ => Op::Resubmit { r },
    }
}

pub fn decode_case(data: &[u8]) -> Case {
    let mut c = Cur::new(data);
    let n = 2 + c.u8() % 2;
    let perms = (0..3).map(|_| if c.flag() { Some(c.u64()) } else { None }).collect();
    let nops = c.u8() % 48;
    let ops = (0..nops).map(|_| op(&mut c, false)).collect();
    let commit = (0..3).map(|_| c.flag()).collect();
    let nd = c.u8() % 6;
    let deliveries = (0..nd).map(|_| op(&mut c, true)).collect();
    let final_mode = (0..3).map(|_| c.u8() % 3).collect();
    Case { n, perms, ops, fin: Some(FinPlan { commit, deliveries, final_mode }) }
}
