//! Which parts (sub-checks) make up each property's check, their budgets, and dispatch.
use crate::props;
use crate::runner::{self, CaseRes, WorkerResult};
use crate::world;
use serde_json::Value;
use std::sync::atomic::Ordering;

pub struct PartPlan {
    pub name: &'static str,
    pub shards: usize,
    /// cases per shard
    pub cases: u32,
    pub env: Vec<(String, String)>,
}

fn pp(name: &'static str, shards: usize, cases: u32) -> PartPlan {
    PartPlan { name, shards, cases, env: vec![] }
}

pub fn plan(prop: &str, tier: &str) -> Vec<PartPlan> {
    let t = tier == "thorough";
    let h = |q: u32, th: u32| if t { pp("hist", 16, th / 16) } else { pp("hist", 16, q / 16) };
    match prop {
        "C01" => vec![h(1600, 48000)],
        "C03" => vec![h(1600, 48000)],
        "C04" => vec![h(1600, 48000)],
        "C05" => vec![h(800, 16000)],
        "C06" => vec![h(1200, 32000)],
        "C07" => vec![h(1200, 32000)],
        "C08" => vec![h(1600, 48000)],
        "C11" => vec![h(1200, 32000)],
        "C12" => vec![h(1600, 48000)],
        "C13" => vec![h(1200, 32000)],
        "C14" => vec![h(1200, 32000)],
        "C15" => vec![h(1600, 48000)],
        "C19" => vec![h(800, 16000)],
        _ => vec![],
    }
}

pub fn timeout_s(_prop: &str, tier: &str) -> u64 {
    if tier == "thorough" {
        3600
    } else {
        900
    }
}

pub fn level(prop: &str) -> (&'static str, Vec<&'static str>) {
    let common = vec![
        "generated histories are executed against the real library through its public API (plus read-only hooks); absence of violations is evidence for the explored cases only",
        "block/pack identifiers vary from run to run (HashMap iteration order inside melda); generator choices never depend on them",
    ];
    match prop {
        "C09" | "C10" => ("fault_enumeration", common),
        _ => ("exploration", common),
    }
}

pub fn rule(prop: &str, tier: &str) -> String {
    if let Some(c) = props::hist_cfg(prop, tier == "thorough") {
        return c.rule.to_string();
    }
    String::new()
}

fn hist_case(cfg: &props::HistCfg, case: &props::Case) -> CaseRes {
    let o = props::run_case(cfg, case);
    let nontrivial = (cfg.nontrivial)(&o.counters);
    CaseRes { counters: o.counters, nontrivial, result: o.result, log: o.log, steps: o.steps }
}

pub fn run_part(prop: &str, part: &str, tier: &str, cases: u32, seed: u64, _shard: u64, _nshards: u64) -> WorkerResult {
    match part {
        "hist" => {
            let cfg = props::hist_cfg(prop, tier == "thorough").expect("no history configuration");
            let strat = props::case_strategy(&cfg);
            runner::drive("hist", prop, strat, cases, seed, |c| hist_case(&cfg, c))
        }
        _ => WorkerResult { part: part.to_string(), notes: vec![format!("unknown part {}", part)], ..Default::default() },
    }
}

pub fn replay_part(prop: &str, part: &str, case: &Value) -> Option<(String, String, Vec<String>)> {
    match part {
        "hist" => {
            let cfg = props::hist_cfg(prop, false)?;
            let case: props::Case = serde_json::from_value(case.clone()).ok()?;
            runner::replay(prop, &case, 20, |c| hist_case(&cfg, c))
        }
        _ => None,
    }
}

/// Watchdog: a melda call that does not return. If every thread of the process is asleep and
/// no thread's CPU time advances, it is a confirmed deadlock (violation of C08); otherwise the
/// worker keeps waiting and finally gives up as inconclusive.
pub fn start_watchdog(prop: &str, part: &str, seed: u64, out: &str) {
    let prop = prop.to_string();
    let part = part.to_string();
    let out = out.to_string();
    std::thread::spawn(move || {
        let me = thread_id();
        loop {
            std::thread::sleep(std::time::Duration::from_millis(500));
            let st = world::OP_START.load(Ordering::SeqCst);
            if st == 0 {
                continue;
            }
            let el = world::now_ms().saturating_sub(st);
            if el < 5000 {
                continue;
            }
            let a = sample_threads(me);
            std::thread::sleep(std::time::Duration::from_millis(1000));
            if world::OP_START.load(Ordering::SeqCst) != st {
                continue;
            }
            let b = sample_threads(me);
            let all_asleep = !b.is_empty() && b.iter().all(|(_, s, _)| *s == 'S');
            let no_progress = a.len() == b.len() && a.iter().zip(b.iter()).all(|(x, y)| x.0 == y.0 && x.2 == y.2);
            if all_asleep && no_progress {
                let op = world::OP_NAME.lock().map(|s| s.clone()).unwrap_or_default();
                let case = runner::CURRENT_CASE.lock().map(|s| s.clone()).unwrap_or_default();
                let mut r = WorkerResult { part: part.clone(), ..Default::default() };
                r.evaluations = 1;
                if prop == "C08" {
                    r.violation = Some(runner::Violation {
                        prop: "C08".into(),
                        msg: format!("operation {} never returns: confirmed deadlock (all {} threads asleep, no CPU time consumed for 1 s after {} ms)", op, b.len(), el),
                        case: serde_json::from_str(&case).unwrap_or(Value::Null),
                        log: vec![],
                        part: part.clone(),
                        seed,
                        kind: "deadlock".into(),
                    });
                } else {
                    r.evaluations = 0;
                    r.aborted = 1;
                    r.notes.push(format!("worker stopped: operation {} deadlocked (reported by the C08 check only)", op));
                }
                let _ = std::fs::write(&out, serde_json::to_vec(&r).unwrap());
                std::process::exit(3);
            }
            if el > 120_000 {
                std::process::exit(2);
            }
        }
    });
}

fn thread_id() -> i64 {
    std::fs::read_link("/proc/thread-self").ok().and_then(|p| p.file_name().and_then(|f| f.to_str().and_then(|s| s.parse().ok()))).unwrap_or(-1)
}

/// (tid, state, utime+stime) of every thread except the watchdog
fn sample_threads(me: i64) -> Vec<(i64, char, u64)> {
    let mut v = vec![];
    if let Ok(rd) = std::fs::read_dir("/proc/self/task") {
        for e in rd.flatten() {
            let tid: i64 = e.file_name().to_str().and_then(|s| s.parse().ok()).unwrap_or(-1);
            if tid == me {
                continue;
            }
            if let Ok(s) = std::fs::read_to_string(e.path().join("stat")) {
                if let Some(rest) = s.rsplit(')').next() {
                    let f: Vec<&str> = rest.split_whitespace().collect();
                    let state = f.first().and_then(|x| x.chars().next()).unwrap_or('?');
                    let ut: u64 = f.get(11).and_then(|x| x.parse().ok()).unwrap_or(0);
                    let stt: u64 = f.get(12).and_then(|x| x.parse().ok()).unwrap_or(0);
                    v.push((tid, state, ut + stt));
                }
            }
        }
    }
    v.sort();
    v
}
