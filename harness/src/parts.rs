//! Which parts (sub-checks) make up each property's check, their budgets, and dispatch.
use crate::props;
use crate::runner::{self, CaseRes, WorkerResult};
use crate::world;
use serde_json::Value;
use std::sync::atomic::Ordering;

pub struct PartPlan {
    pub name: &'static str,
    pub shards: usize,
    /// cases per shard
    pub cases: u32,
    pub env: Vec<(String, String)>,
}

fn pp(name: &'static str, shards: usize, cases: u32) -> PartPlan {
    PartPlan { name, shards, cases, env: vec![] }
}

pub fn plan(prop: &str, tier: &str) -> Vec<PartPlan> {
    let t = tier == "thorough";
    let h = |q: u32, th: u32| if t { pp("hist", 16, th / 16) } else { pp("hist", 16, q / 16) };
    let mut v = plan_base(prop, tier, &h);
    // thorough tier: the history parts were budgeted when histories were cheaper (before the composite
    // operations were added); 15 % of the nominal numbers keeps every thorough check at roughly ten to fifteen minutes
    // on 16 idle cores and well inside the watchdog limit on a loaded machine
    if t {
        for p in v.iter_mut() {
            if p.name.starts_with("hist") || p.name == "dual" || p.name == "twins" {
                p.cases = (p.cases * 3 / 20).max(1);
            }
        }
    }
    // every history-driven check also runs a quarter of its history budget with capacity-1 caches
    // (C03/C04 have their own, larger, capacity-1 part)
    if props::hist_cfg(prop, t).is_some() && !v.iter().any(|p| p.name == "hist-cap1") {
        if let Some(hp) = v.iter().find(|p| p.name.starts_with("hist")) {
            let total: u32 = v.iter().filter(|p| p.name.starts_with("hist")).map(|p| p.cases * p.shards as u32).sum();
            let _ = hp;
            let mut c1 = pp("hist-cap1", 8, (total / 4 / 8).max(1));
            c1.env = vec![("MELDA_ARRAYDESCRIPTORS_CACHE_CAP".to_string(), "1".to_string()), ("MELDA_DATA_CACHE_CAP".to_string(), "1".to_string())];
            v.push(c1);
        }
    }
    // coverage-guided supplement (thorough tier of the history-driven properties)
    if t && props::hist_cfg(prop, true).is_some() && !v.is_empty() {
        v.push(pp("fuzz", 4, 5000));
    }
    v
}

fn plan_base(prop: &str, tier: &str, h: &dyn Fn(u32, u32) -> PartPlan) -> Vec<PartPlan> {
    let t = tier == "thorough";
    match prop {
        "C01" => vec![h(16000, 384000)],
        "C02" => vec![if t { pp("deliver", 16, 64000 / 16) } else { pp("deliver", 16, 16000 / 16) }, h(8000, 192000)],
        "C03" | "C04" => {
            // second configuration: capacity-1 caches, so that the live instance itself reads from packs
            let mut c1 = if t { pp("hist-cap1", 8, 128000 / 8) } else { pp("hist-cap1", 8, 8000 / 8) };
            c1.env = vec![("MELDA_ARRAYDESCRIPTORS_CACHE_CAP".to_string(), "1".to_string()), ("MELDA_DATA_CACHE_CAP".to_string(), "1".to_string())];
            let mut v = vec![h(16000, 384000), c1];
            if prop == "C03" {
                v.push(pp("deep", 1, 0));
            }
            v
        }
        "C05" => vec![h(8000, 128000), if t { pp("trees", 16, 1_000_000 / 16) } else { pp("trees", 16, 40_000 / 16) }, pp("tree-exhaustive", 16, 0)],
        "C06" => vec![h(12000, 256000), pp("merge-exhaustive", 16, 0)],
        "C07" => vec![h(12000, 256000), if t { pp("dual", 16, 64000 / 16) } else { pp("dual", 16, 4000 / 16) }],
        "C08" => {
            // all sizes of the internal worker pool that matter: 1 (client thread + one worker), 2, 16 (quick);
            // thorough: 1..16 spread over the shards
            let mut v = vec![];
            let sizes: Vec<u32> = if t { (1..=16).collect() } else { vec![1, 2, 16] };
            for n in sizes {
                let name: &'static str = Box::leak(format!("hist-pool{}", n).into_boxed_str());
                let mut p = if t { pp(name, 2, 384000 / 32) } else { pp(name, 6, 16000 / 18) };
                p.env = vec![("RAYON_NUM_THREADS".to_string(), n.to_string())];
                v.push(p);
            }
            v
        }
        "C09" => {
            let mut c1 = if t { pp("faults-cap1", 8, 16000 / 8) } else { pp("faults-cap1", 8, 4000 / 8) };
            c1.env = vec![("MELDA_ARRAYDESCRIPTORS_CACHE_CAP".to_string(), "1".to_string()), ("MELDA_DATA_CACHE_CAP".to_string(), "1".to_string())];
            vec![if t { pp("faults", 16, 48000 / 16) } else { pp("faults", 16, 12000 / 16) }, c1]
        }
        "C10" => {
            let mut b = if t { pp("damage-b", 8, 40000 / 8) } else { pp("damage-b", 8, 8000 / 8) };
            b.env = vec![("MELDA_ARRAYDESCRIPTORS_CACHE_CAP".to_string(), "1".to_string()), ("MELDA_DATA_CACHE_CAP".to_string(), "1".to_string())];
            vec![if t { pp("damage", 16, 24000 / 16) } else { pp("damage", 16, 8000 / 16) }, b]
        }
        "C11" => vec![h(12000, 256000), if t { pp("stacks", 16, 6400 / 16) } else { pp("stacks", 16, 320 / 16) }],
        "C12" => vec![h(16000, 384000)],
        "C13" => vec![h(12000, 256000)],
        "C14" => vec![h(12000, 256000)],
        "C15" => vec![h(16000, 384000)],
        "C16" => {
            let mut v = vec![pp("diff-exhaustive", 16, 0), if t { pp("diff-large", 16, 400_000 / 16) } else { pp("diff-large", 16, 24_000 / 16) }];
            for (name, cap) in [("chains-cap1", "1"), ("chains-cap2", "2"), ("chains-cap3", "3"), ("chains-cap16", "16")] {
                let mut p = pp(name, 4, if t { 100_000 / 4 } else { 6000 / 4 });
                p.env = vec![("MELDA_ARRAYDESCRIPTORS_CACHE_CAP".to_string(), cap.to_string()), ("MELDA_DATA_CACHE_CAP".to_string(), cap.to_string())];
                v.push(p);
            }
            v.push(h(8000, 160000));
            v
        }
        "C17" => vec![if t { pp("kv", 16, 16000 / 16) } else { pp("kv", 16, 1600 / 16) }, if t { pp("replica", 16, 4800 / 16) } else { pp("replica", 16, 320 / 16) }],
        "C18" => {
            // every shrink step costs 8-26 child processes: cap the number of shrink iterations
            let mut p = if t { pp("configs", 16, 6400 / 16) } else { pp("configs", 16, 1600 / 16) };
            p.env = vec![("VERIF_MAX_SHRINK".to_string(), "120".to_string())];
            vec![p]
        }
        "C19" => vec![h(8000, 128000), if t { pp("revs", 16, 400_000 / 16) } else { pp("revs", 16, 20_000 / 16) }, if t { pp("twins", 16, 64000 / 16) } else { pp("twins", 16, 4000 / 16) }],
        _ => vec![],
    }
}

pub fn timeout_s(_prop: &str, tier: &str) -> u64 {
    // generous: a part that runs into this limit is reported as inconclusive (exit 2), never as a violation
    if tier == "thorough" {
        10800
    } else {
        1800
    }
}

pub fn level(prop: &str) -> (&'static str, Vec<&'static str>) {
    let common = vec![
        "generated histories are executed against the real library through its public API (plus read-only hooks); absence of violations is evidence for the explored cases only",
        "block/pack identifiers vary from run to run (HashMap iteration order inside melda); generator choices never depend on them",
    ];
    match prop {
        "C09" | "C10" => ("fault_enumeration", common),
        _ => ("exploration", common),
    }
}

pub fn rule(prop: &str, tier: &str) -> String {
    let mut v: Vec<String> = vec![];
    if let Some(c) = props::hist_cfg(prop, tier == "thorough") {
        v.push(format!("[hist] {}", c.rule));
        if prop == "C08" {
            v.push("the history part runs in worker processes with RAYON_NUM_THREADS = 1, 2, 16 (quick) / 1..16 (thorough)".into());
        }
        {
            v.push("[hist-cap1] the same generator in worker processes with both cache capacities = 1 (a quarter of the history budget; half for C03/C04)".into());
            if prop == "C03" {
                v.push("[deep] fixed inputs: values nested 1..400 levels (around the JSON parser's recursion limit of 128) in a verbatim field, in an element of a flattened array and in commit metadata; commit, reopen, compare full observations".into());
            }
        }
        if tier == "thorough" {
            v.push("[fuzz] libFuzzer (cargo-fuzz, in-process, coverage-guided) on the same interpreter and oracles: bytes are decoded by a hand-written cursor into a history (harness/src/fuzzdec.rs); 4 jobs x 5000 runs from the seed corpus in fuzz/seeds; evaluations = executed inputs, distinct non-trivial = inputs kept by the fuzzer because they reached new coverage".into());
        }
    }
    match prop {
        "C02" => v.push("[deliver] a generated multi-replica history builds a block graph; all its item files are delivered one at a time in a generated permutation (optionally packs last, optionally permuted listing) to a fresh replica (in 30% of cases a *warm* one: it first submitted and unstaged the documents the source replicas submitted last, so the objects sit in its caches but not in its storage) with refresh after each file (= every prefix of the permutation); in half of the cases some items first arrive damaged (truncated or one bit flipped, as an interrupted in-place write leaves them), a refresh runs and must not change the state, then the intact bytes replace them; in half of the cases some refreshes run first while reads of the replica's own storage fail transiently (they may report an error, the regular refresh that follows must catch up completely); graphs with <=4 (quick) / <=5 (thorough) items: every permutation; after each delivery: incremental == full reload, applied set == reference causal closure, state == replica holding only the closure, heads == closure heads; non-trivial = >=4 items with a child block delivered before a parent and a block before its pack".into()),
        "C09" => v.push("[faults] generated multi-replica history; for EVERY commit and meld in it: the storage snapshot at every write boundary is opened by a fresh replica (must equal the state of the intact causally complete items only; a block present must be complete, i.e. never before its pack; before the block is written the state equals the previous state), then the history prefix is re-executed with write k of that operation failing, for every k (single and repeated failure; <=16/48 re-runs per history): failed commit reports an error, keeps the staged changes, the visible state and every staged value retrievable, the retry succeeds and reopening equals the fault-free twin; meld under failures followed by a fault-free meld equals the twin; a fresh peer that melds the retried commit sees the same state as the twin; [faults-cap1] the same with capacity-1 caches; non-trivial = history with a commit writing pack+block, an injected commit failure and a meld of >=3 items or an injected meld failure".into()),
        "C10" => v.push("[damage] generated multi-replica history, fully exchanged; then 1-4 generated faults (bit flip at a generated position, truncation to a generated length, emptying, deletion, injection of 18 kinds of junk files incl. over-long indices, extension-only names, hash-valid but malformed blocks and real items under names holding only a prefix of their digest), each alone and all together, plus a sweep over the positions of one item (bit flip + truncation at every stride-th byte; every byte for items <=700 B in thorough); a fresh replica opened on the damaged storage must report an error or equal (state and applied blocks) a replica on the reference closure of the intact items, never abort, and show only submitted contents; the same through refresh on a live replica that had loaded a generated prefix, the refresh being repeated three times and twice more after the damaged items were restored (each time: error and unchanged state, or exactly the intact causally complete state of that moment); and a long-lived replica that refreshed a first part (packs indexed, blocks possibly held back), after which packs its applied blocks do not depend on are damaged and the rest arrives: the second refresh may only apply blocks whose own packs are intact at that moment. non-trivial = a fault that invalidates an item on which other blocks depend. [damage-b] capacity-1 caches: packs damaged after indexing; get_value of every revision returns an error or the intact value, read() may fail but shows only submitted contents".into()),
        "C17" => v.push("[kv] generated sequences (1-30 steps; a step is one operation or the look-before-write pattern: read another key, look the key up - a miss if never written -, optionally list, write it, read it back whole and sliced) of write / full read (also of keys never written: must fail) / in-range non-empty slice read / list(suffix) / reopen over 12 stacks {memory, directory, SQLite file, SQLite in-memory} x {plain, Deflate, Brotli}, each against a write-once map; keys ASCII >=3 chars from stems x extensions incl. .delta .pack .flate .brotli, nested ones, upper/lower-case twins and the characters _ and %; values empty, 1 byte, random and compressible up to 128 KB; 20 list suffixes incl. empty, partial, over-long, upper-case and ones containing _ or %; final reopen + full comparison; non-trivial = a second write to an existing key, a slice read and a list in one sequence. [replica] the same generated two-replica history (rich JSON, commits, meld+refresh, resolve, reopen) on every stack; per-step observations equal to those over plain memory; replicas reopened from their storage equal the live ones; non-trivial = history with a commit and a reopen on a persistent stack".into()),
        "C18" => v.push("[configs] one generated multi-replica history (no raw partial file copies / time travel, whose selectors address block identifiers that legitimately vary per run) is executed in 8 (quick) / 26 (thorough) child processes with RAYON_NUM_THREADS in {1,2,4,16} / 1..16, MELDA_*_CACHE_CAP in {1,2,16}(+3), permuted storage listings, and twice in the same configuration (fresh hash seeds); the per-step digests of (objects, winners, conflicts, document) of every replica and the converged final state must be identical in all runs; non-trivial = history with an update touching >=8 objects or a refresh applying >=3 blocks at once".into()),
        "C07" => v.push("[dual] two replicas brought to a common conflicted state (history + complete exchange) resolve the same object independently, in favour of the same (30 %) or of generated, possibly different, live leaves; both commit; the complete exchange must converge (C01 oracle) and, when both chose the same leaf, the object must not be in conflict afterwards; non-trivial = a dual resolution took place".into()),
        "C11" => v.push("[stacks] the same invariants observed through Adapter::list_objects / read_object of real backends (memory, memory+Deflate, memory+Brotli, directory+Deflate): generated two-replica histories with rich commit metadata and, in 60 % of the cases, a poorly compressible string of 20-400 KB in the content and in the next commit's metadata; after every operation every listed item must read back, hash to its name (blocks: index rule), never disappear, and have equal bytes on both replicas; finally complete exchange, equal item sets, and both replicas reopen; non-trivial = an item larger than 60 KB was checked".into()),
        "C05" => v.push("[trees] generated (revision,parent) sets: several creations, update/delete/marker children, dangling parents, chains past index 10/100, inserted in 2-6 generated permutations via add and unvalidated_add+validate; RevisionTree leaves/winner vs reference rule; non-trivial = >=2 live leaves and (marker | dangling parent | index>=10). [tree-exhaustive] every shape with <=4 (quick) / <=5 (thorough) nodes x every insertion order".into()),
        "C06" => v.push("[merge-exhaustive] merge_arrays on every ordered pair of duplicate-free sequences (6 symbols/len<=6 quick; 7 symbols/len<=6 thorough) and every triple folded on a base (5/4; 6/4): union exactly once, base order kept, other order kept when the versions agree on common elements; non-trivial = both sides contribute an element or disagree on order".into()),
        "C16" => v.push("[chains-capN] one replica, chains of 2-40 (60) successive versions of two flattened arrays (insert, remove, rotate, reverse, empty, refill, bulk fill with 90-150 elements, move across arrays, key removal/re-addition, identical successive edits) with commits, reopens and snapshots interleaved, run in worker processes with MELDA_ARRAYDESCRIPTORS_CACHE_CAP = MELDA_DATA_CACHE_CAP in {1,2,3,16}; read()==submitted after every step and every stored version on the parent chain rebuilt by the reference applier == what was submitted for that revision; non-trivial = chain >=5 with an emptying and refill. [diff-large] generated arrays of length 0-320 (mostly >= 90) over small and large alphabets, the new version derived by 0-12 inserts / removals / moves / block deletions or generated independently: same round-trip oracle; non-trivial = both versions >= 100 elements and different. [diff-exhaustive] every ordered pair of sequences with repeats over 4 symbols (len<=6 quick, <=7 thorough): apply(make(a,b),a)==b with melda's applier and, after a JSON text round trip, with the reference applier; script empty iff a==b; non-trivial = script with >=2 operations".into()),
        "C19" => v.push("[revs] generated revision pools built through the Revision API (creation/update/deletion/marker, chains crossing 9->10, 99->100, 999->1000): purity, new_updated == new(index+1), identifier == reference function of (digest, parent id), print/parse round trip incl. hash, and over generated triples totality/antisymmetry/transitivity/consistency with equality and agreement with the reference order; non-trivial = triple mixing marker+deletion+update or a boundary-crossing chain. [twins] two replicas brought to a common base by a generated history + complete exchange apply the same generated edits independently: winners of every object (revision strings) and states must be equal after each edit, and after commit + exchange no new conflict may exist; non-trivial = the twin edit created new revisions".into()),
        _ => {}
    }
    v.join(" || ")
}

fn hist_case(cfg: &props::HistCfg, case: &props::Case) -> CaseRes {
    let o = props::run_case(cfg, case);
    let nontrivial = (cfg.nontrivial)(&o.counters);
    CaseRes { counters: o.counters, nontrivial, result: o.result, log: o.log, steps: o.steps }
}

pub fn run_part(prop: &str, part: &str, tier: &str, cases: u32, seed: u64, _shard: u64, _nshards: u64) -> WorkerResult {
    match part {
        p if p.starts_with("hist") => {
            let cfg = props::hist_cfg(prop, tier == "thorough").expect("no history configuration");
            let strat = props::case_strategy(&cfg);
            runner::drive(p, prop, strat, cases, seed, |c| hist_case(&cfg, c))
        }
        p if p.starts_with("chains-cap") => {
            let name = part.to_string();
            runner::drive(&name, prop, crate::c16::strategy(tier == "thorough"), cases, seed, |c| crate::c16::run(c))
        }
        "fuzz" => crate::fuzzrun::run(prop, cases, seed, _shard),
        "diff-large" => runner::drive("diff-large", prop, crate::unit::bigdiff_strategy(), cases, seed, crate::unit::run_bigdiff),
        "trees" => runner::drive("trees", prop, crate::unit::tree_strategy(), cases, seed, crate::unit::run_tree),
        "revs" => runner::drive("revs", prop, crate::unit::rev_strategy(), cases, seed, crate::unit::run_rev),
        "tree-exhaustive" => crate::unit::tree_exhaustive(tier == "thorough", _shard, _nshards),
        "merge-exhaustive" => crate::unit::merge_exhaustive(tier == "thorough", _shard, _nshards),
        "diff-exhaustive" => crate::unit::diff_exhaustive(tier == "thorough", _shard, _nshards),
        "stacks" => runner::drive("stacks", prop, crate::c11::strategy(), cases, seed, crate::c11::run),
        "deep" => crate::c03::run(),
        "dual" => runner::drive("dual", prop, crate::c07::strategy(), cases, seed, crate::c07::run),
        "twins" => runner::drive("twins", prop, crate::c19::strategy(), cases, seed, crate::c19::run),
        "configs" => {
            let th = tier == "thorough";
            runner::drive("configs", prop, crate::c18::strategy(th), cases, seed, |c| crate::c18::run(c, th))
        }
        "kv" => runner::drive("kv", prop, crate::c17::kv_strategy(), cases, seed, |c| crate::c17::run_kv(c, None)),
        "replica" => runner::drive("replica", prop, crate::c17::rep_strategy(), cases, seed, crate::c17::run_rep),
        "damage" => {
            let th = tier == "thorough";
            runner::drive("damage", prop, crate::c10::strategy(th), cases, seed, |c| crate::c10::run(c, th))
        }
        "damage-b" => runner::drive("damage-b", prop, crate::c10::strategy(tier == "thorough"), cases, seed, |c| crate::c10::run_b(c)),
        p if p.starts_with("faults") => {
            let th = tier == "thorough";
            runner::drive(p, prop, crate::c09::strategy(th), cases, seed, |c| crate::c09::run(c, th))
        }
        "deliver" => {
            let th = tier == "thorough";
            runner::drive("deliver", prop, crate::c02::strategy(th), cases, seed, |c| crate::c02::run(c, th))
        }
        _ => WorkerResult { part: part.to_string(), notes: vec![format!("unknown part {}", part)], ..Default::default() },
    }
}

pub fn replay_part(prop: &str, part: &str, case: &Value) -> Option<(String, String, Vec<String>)> {
    match part {
        p if p.starts_with("hist") => {
            let cfg = props::hist_cfg(prop, false)?;
            let case: props::Case = serde_json::from_value(case.clone()).ok()?;
            if p == "hist-cap1" {
                std::env::set_var("MELDA_ARRAYDESCRIPTORS_CACHE_CAP", "1");
                std::env::set_var("MELDA_DATA_CACHE_CAP", "1");
            }
            let r = runner::replay(prop, &case, 20, |c| hist_case(&cfg, c));
            std::env::remove_var("MELDA_ARRAYDESCRIPTORS_CACHE_CAP");
            std::env::remove_var("MELDA_DATA_CACHE_CAP");
            r
        }
        p if p.starts_with("chains-cap") => {
            let case: Vec<crate::c16::ChainOp> = serde_json::from_value(case.clone()).ok()?;
            let cap = p.trim_start_matches("chains-cap").to_string();
            std::env::set_var("MELDA_ARRAYDESCRIPTORS_CACHE_CAP", &cap);
            std::env::set_var("MELDA_DATA_CACHE_CAP", &cap);
            let r = runner::replay(prop, &case, 3, |c| crate::c16::run(c));
            std::env::remove_var("MELDA_ARRAYDESCRIPTORS_CACHE_CAP");
            std::env::remove_var("MELDA_DATA_CACHE_CAP");
            r
        }
        "diff-large" => {
            let case: crate::unit::BigDiffCase = serde_json::from_value(case.clone()).ok()?;
            runner::replay(prop, &case, 1, crate::unit::run_bigdiff)
        }
        "trees" => {
            let case: crate::unit::TreeCase = serde_json::from_value(case.clone()).ok()?;
            runner::replay(prop, &case, 1, crate::unit::run_tree)
        }
        "revs" => {
            let case: crate::unit::RevCase = serde_json::from_value(case.clone()).ok()?;
            runner::replay(prop, &case, 1, crate::unit::run_rev)
        }
        "stacks" => {
            let case: crate::c11::StackCase = serde_json::from_value(case.clone()).ok()?;
            runner::replay(prop, &case, 3, crate::c11::run)
        }
        "deep" => crate::c03::run().violation.map(|v| (v.prop, v.msg, v.log)),
        "dual" => {
            let case: crate::c07::DualCase = serde_json::from_value(case.clone()).ok()?;
            runner::replay(prop, &case, 5, crate::c07::run)
        }
        "twins" => {
            let case: crate::c19::TwinCase = serde_json::from_value(case.clone()).ok()?;
            runner::replay(prop, &case, 5, crate::c19::run)
        }
        "configs" => {
            let case: props::Case = serde_json::from_value(case.clone()).ok()?;
            runner::replay(prop, &case, 3, |c| crate::c18::run(c, true))
        }
        "kv" => {
            let case: Vec<crate::c17::KvOp> = serde_json::from_value(case.clone()).ok()?;
            runner::replay(prop, &case, 2, |c| crate::c17::run_kv(c, None))
        }
        "replica" => {
            let case: crate::c17::RepCase = serde_json::from_value(case.clone()).ok()?;
            runner::replay(prop, &case, 5, crate::c17::run_rep)
        }
        "damage" => {
            let case: crate::c10::C10Case = serde_json::from_value(case.clone()).ok()?;
            runner::replay(prop, &case, 10, |c| crate::c10::run(c, true))
        }
        "damage-b" => {
            let case: crate::c10::C10Case = serde_json::from_value(case.clone()).ok()?;
            std::env::set_var("MELDA_ARRAYDESCRIPTORS_CACHE_CAP", "1");
            std::env::set_var("MELDA_DATA_CACHE_CAP", "1");
            let r = runner::replay(prop, &case, 10, |c| crate::c10::run_b(c));
            std::env::remove_var("MELDA_ARRAYDESCRIPTORS_CACHE_CAP");
            std::env::remove_var("MELDA_DATA_CACHE_CAP");
            r
        }
        p if p.starts_with("faults") => {
            let case: crate::c09::C09Case = serde_json::from_value(case.clone()).ok()?;
            if p == "faults-cap1" {
                std::env::set_var("MELDA_ARRAYDESCRIPTORS_CACHE_CAP", "1");
                std::env::set_var("MELDA_DATA_CACHE_CAP", "1");
            }
            let r = runner::replay(prop, &case, 10, |c| crate::c09::run(c, true));
            std::env::remove_var("MELDA_ARRAYDESCRIPTORS_CACHE_CAP");
            std::env::remove_var("MELDA_DATA_CACHE_CAP");
            r
        }
        "deliver" => {
            let case: crate::c02::C02Case = serde_json::from_value(case.clone()).ok()?;
            runner::replay(prop, &case, 20, |c| crate::c02::run(c, false))
        }
        _ => None,
    }
}

/// Watchdog: a melda call that does not return. If every thread of the process is asleep and
/// no thread's CPU time advances, it is a confirmed deadlock (violation of C08); otherwise the
/// worker keeps waiting and finally gives up as inconclusive.
pub fn start_watchdog(prop: &str, part: &str, seed: u64, out: &str) {
    let prop = prop.to_string();
    let part = part.to_string();
    let out = out.to_string();
    std::thread::spawn(move || {
        let me = thread_id();
        loop {
            std::thread::sleep(std::time::Duration::from_millis(500));
            let st = world::OP_START.load(Ordering::SeqCst);
            if st == 0 {
                continue;
            }
            let el = world::now_ms().saturating_sub(st);
            if el < 5000 {
                continue;
            }
            let a = sample_threads(me);
            std::thread::sleep(std::time::Duration::from_millis(1000));
            if world::OP_START.load(Ordering::SeqCst) != st {
                continue;
            }
            let b = sample_threads(me);
            let all_asleep = !b.is_empty() && b.iter().all(|(_, s, _)| *s == 'S');
            let no_progress = a.len() == b.len() && a.iter().zip(b.iter()).all(|(x, y)| x.0 == y.0 && x.2 == y.2);
            if all_asleep && no_progress {
                let op = world::OP_NAME.lock().map(|s| s.clone()).unwrap_or_default();
                let case = runner::CURRENT_CASE.lock().map(|s| s.clone()).unwrap_or_default();
                let mut r = WorkerResult { part: part.clone(), ..Default::default() };
                r.evaluations = 1;
                if prop == "C08" {
                    r.violation = Some(runner::Violation {
                        prop: "C08".into(),
                        msg: format!("operation {} never returns: confirmed deadlock (all {} threads asleep, no CPU time consumed for 1 s after {} ms)", op, b.len(), el),
                        case: serde_json::from_str(&case).unwrap_or(Value::Null),
                        log: vec![],
                        part: part.clone(),
                        seed,
                        kind: "deadlock".into(),
                    });
                } else {
                    r.evaluations = 0;
                    r.aborted = 1;
                    r.notes.push(format!("worker stopped: operation {} deadlocked (reported by the C08 check only)", op));
                }
                let _ = std::fs::write(&out, serde_json::to_vec(&r).unwrap());
                std::process::exit(3);
            }
            if el > 120_000 {
                std::process::exit(2);
            }
        }
    });
}

fn thread_id() -> i64 {
    std::fs::read_link("/proc/thread-self").ok().and_then(|p| p.file_name().and_then(|f| f.to_str().and_then(|s| s.parse().ok()))).unwrap_or(-1)
}

/// (tid, state, utime+stime) of every thread except the watchdog
fn sample_threads(me: i64) -> Vec<(i64, char, u64)> {
    let mut v = vec![];
    if let Ok(rd) = std::fs::read_dir("/proc/self/task") {
        for e in rd.flatten() {
            let tid: i64 = e.file_name().to_str().and_then(|s| s.parse().ok()).unwrap_or(-1);
            if tid == me {
                continue;
            }
            if let Ok(s) = std::fs::read_to_string(e.path().join("stat")) {
                if let Some(rest) = s.rsplit(')').next() {
                    let f: Vec<&str> = rest.split_whitespace().collect();
                    let state = f.first().and_then(|x| x.chars().next()).unwrap_or('?');
                    let ut: u64 = f.get(11).and_then(|x| x.parse().ok()).unwrap_or(0);
                    let stt: u64 = f.get(12).and_then(|x| x.parse().ok()).unwrap_or(0);
                    v.push((tid, state, ut + stt));
                }
            }
        }
    }
    v.sort();
    v
}
