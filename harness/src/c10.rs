//! C10: stored items are trusted only if their bytes hash to their name. Histories are generated,
//! then faults are applied to the stored items (bit flips, truncation, emptying, deletion, junk
//! injection) and a replica is opened / refreshed on the damaged storage.
use crate::gen::{self, Mix};
use crate::model;
use crate::ops2::FinPlan;
use crate::props::Case;
use crate::runner::CaseRes;
use crate::store::{HStore, Snap};
use crate::world::*;
use proptest::collection::vec;
use proptest::prelude::*;
use serde::{Deserialize, Serialize};
use serde_json::Value;
use std::collections::{BTreeMap, BTreeSet};

#[derive(Clone, Debug, Serialize, Deserialize)]
pub enum Fault {
    BitFlip { item: u16, pos: u16, bit: u8 },
    Truncate { item: u16, len: u16 },
    Empty { item: u16 },
    Delete { item: u16 },
    Junk { kind: u8, salt: u8 },
}

#[derive(Clone, Debug, Serialize, Deserialize)]
pub struct C10Case {
    pub hist: Case,
    pub faults: Vec<Fault>,
    /// how many items the live replica has loaded before the (damaged) rest arrives
    pub split: u16,
    pub sweep_item: u16,
    pub sweep_bit: u8,
}

pub fn strategy(thorough: bool) -> BoxedStrategy<C10Case> {
    let mix = Mix { update: 10, commit: 8, meldrefresh: 6, filecopy: 1, resolve: 2, timetravel: 0, rich: false, ..Mix::default() };
    let len = if thorough { 40 } else { 24 };
    let fault = prop_oneof![
        4 => (any::<u16>(), any::<u16>(), 0u8..8).prop_map(|(item, pos, bit)| Fault::BitFlip { item, pos, bit }),
        3 => (any::<u16>(), any::<u16>()).prop_map(|(item, len)| Fault::Truncate { item, len }),
        1 => any::<u16>().prop_map(|item| Fault::Empty { item }),
        3 => any::<u16>().prop_map(|item| Fault::Delete { item }),
        3 => (0u8..26, any::<u8>()).prop_map(|(kind, salt)| Fault::Junk { kind, salt }),
    ];
    (2u8..=3, gen::history(&mix, len), vec(fault, 1..5), any::<u16>(), any::<u16>(), 0u8..8)
        .prop_map(|(n, ops, faults, split, sweep_item, sweep_bit)| C10Case {
            hist: Case { n, perms: vec![None; 3], ops, fin: Some(FinPlan { commit: vec![true; 3], deliveries: vec![], final_mode: vec![0; 3] }) },
            faults,
            split,
            sweep_item,
            sweep_bit,
        })
        .boxed()
}

pub fn junk(kind: u8, salt: u8, snap: &Snap) -> (String, Vec<u8>) {
    let h = model::sha_hex(&[salt, kind]);
    let some_block = snap.keys().find(|k| k.ends_with(".delta")).cloned();
    match kind {
        0 => ("x.delta".into(), b"junk".to_vec()),
        1 => ("7-zz.delta".into(), b"{}".to_vec()),
        2 => (format!("1-{}.delta", h), b"{\"c\":[[\"a\",\"b\"]]}".to_vec()), // well-formed name, wrong bytes
        3 => ("99999999999-abc.delta".into(), b"{}".to_vec()),
        4 => ("junk.pack".into(), b"[]".to_vec()),
        5 => (".delta".into(), b"".to_vec()),
        6 => ("1-.delta".into(), b"{}".to_vec()),
        7 => ("-.delta".into(), vec![salt]),
        8 => (format!("4294967296-{}.delta", h), b"{}".to_vec()),
        9 => {
            // name of an existing block with a different index prefix, same bytes
            match some_block {
                Some(k) => {
                    let stem = k.trim_end_matches(".delta");
                    let hash = stem.split_once('-').map(|x| x.1).unwrap_or("");
                    (format!("{}-{}.delta", 3 + salt as u32 % 5, hash), snap[&k].clone())
                }
                None => ("9-q.delta".into(), b"{}".to_vec()),
            }
        }
        10 => {
            // hash-valid block that is not JSON
            let b = format!("not json {}", salt).into_bytes();
            (format!("1-{}.delta", model::sha_hex(&b)), b)
        }
        11 => {
            // hash-valid, JSON, but not an object
            let b = format!("[{}]", salt).into_bytes();
            (format!("1-{}.delta", model::sha_hex(&b)), b)
        }
        12 => {
            // hash-valid block whose index does not fit its (absent) parents
            let b = format!("{{\"i\":{{\"n\":{}}}}}", salt).into_bytes();
            (format!("2-{}.delta", model::sha_hex(&b)), b)
        }
        13 => {
            // hash-valid origin block naming a pack that does not exist
            let b = format!("{{\"c\":[[\"j{}\",\"{}\"]],\"k\":[\"{}\"]}}", salt, h, h).into_bytes();
            (format!("1-{}.delta", model::sha_hex(&b)), b)
        }
        14 => {
            // hash-valid origin block referring to an object digest that no pack holds
            let b = format!("{{\"c\":[[\"j{}\",\"{}\"]]}}", salt, h).into_bytes();
            (format!("1-{}.delta", model::sha_hex(&b)), b)
        }
        15 => (format!("{}.delta.pack.delta", h), b"{}".to_vec()),
        24 | 25 => {
            // bytes of an existing block (24) / pack (25) under a name that holds only a prefix of their digest
            let ext = if kind == 24 { ".delta" } else { ".pack" };
            match snap.keys().filter(|k| k.ends_with(ext)).nth(salt as usize % 3).or(snap.keys().find(|k| k.ends_with(ext))).cloned() {
                Some(k) => {
                    let stem = k.trim_end_matches(ext);
                    let cut = 1 + (salt as usize * 7) % 40;
                    let name = match stem.split_once('-') {
                        Some((i, hash)) if kind == 24 => format!("{}-{}{}", i, &hash[..cut.min(hash.len().saturating_sub(1))], ext),
                        _ => format!("{}{}", &stem[..cut.min(stem.len().saturating_sub(1))], ext),
                    };
                    (name, snap[&k].clone())
                }
                None => ("1-ab.delta".into(), b"{}".to_vec()),
            }
        }
        k => {
            // hash-valid blocks with malformed fields
            let shapes = [
                "{\"k\":[1]}".to_string(),
                "{\"k\":\"x\"}".to_string(),
                "{\"p\":[1]}".to_string(),
                "{\"p\":\"1-x\"}".to_string(),
                "{\"c\":[[1,2,3]]}".to_string(),
                "{\"c\":\"x\"}".to_string(),
                "{\"c\":[[\"a\",\"notarev\",\"d\"]]}".to_string(),
                format!("{{\"c\":[[\"a\",\"4294967295-{}\",\"d\"]]}}", h),
                "{\"i\":5}".to_string(),
                "{\"c\":[[\"a\"]]}".to_string(),
                "{\"c\":[5,[\"a\",\"d\"]]}".to_string(),
                format!("{{\"p\":[\"4294967295-{}\"]}}", h),
                "{\"c\":[[\"a\",\"99999999999-x\",\"d\"]]}".to_string(),
                "{\"p\":[\"99999999999-x\"]}".to_string(),
            ];
            let b = shapes[(k as usize - 16 + salt as usize) % shapes.len()].clone().into_bytes();
            // give it the index its parents ask for where that is computable, else 1
            (format!("1-{}.delta", model::sha_hex(&b)), b)
        }
    }
}

fn apply_fault(f: &Fault, s: &mut Snap, keys: &[String]) -> Option<String> {
    if keys.is_empty() && !matches!(f, Fault::Junk { .. }) {
        return None;
    }
    match f {
        Fault::BitFlip { item, pos, bit } => {
            let k = &keys[gen::sel(*item, keys.len())];
            let v = s.get_mut(k)?;
            if v.is_empty() {
                return None;
            }
            let p = gen::sel(*pos, v.len());
            v[p] ^= 1 << (bit % 8);
            Some(format!("bitflip {} @{} bit {}", k, p, bit % 8))
        }
        Fault::Truncate { item, len } => {
            let k = &keys[gen::sel(*item, keys.len())];
            let v = s.get_mut(k)?;
            let l = gen::sel(*len, v.len().max(1));
            v.truncate(l);
            Some(format!("truncate {} to {}", k, l))
        }
        Fault::Empty { item } => {
            let k = &keys[gen::sel(*item, keys.len())];
            s.get_mut(k)?.clear();
            Some(format!("empty {}", k))
        }
        Fault::Delete { item } => {
            let k = &keys[gen::sel(*item, keys.len())];
            s.remove(k);
            Some(format!("delete {}", k))
        }
        Fault::Junk { kind, salt } => {
            let (n, b) = junk(*kind, *salt, s);
            if s.contains_key(&n) {
                return None;
            }
            s.insert(n.clone(), b);
            Some(format!("inject {}", n))
        }
    }
}

/// every tracked object shown must carry a content that was submitted for that id
fn contents_submitted(doc: &Value, submitted: &BTreeMap<String, BTreeSet<String>>) -> Result<(), String> {
    let mut tr = vec![];
    model::collect_tracked(doc, &mut vec![], &mut tr);
    for (id, own) in tr {
        // flattened children kinds may legitimately differ (dangling -> null); compare verbatim fields
        let strip = |v: &Value| -> String {
            let mut m = serde_json::Map::new();
            if let Some(o) = v.as_object() {
                for (k, x) in o {
                    if !k.ends_with(model::FLAT) {
                        m.insert(k.clone(), x.clone());
                    }
                }
            }
            Value::from(m).to_string()
        };
        let got = strip(&own);
        let ok = submitted.get(&id).map_or(false, |set| set.iter().any(|s| serde_json::from_str::<Value>(s).map(|v| strip(&v) == got).unwrap_or(false)));
        if !ok {
            return Err(format!("object {:?} is shown with content {} which was never submitted for it", id, got));
        }
    }
    Ok(())
}

/// Oracle A: open a replica on damaged storage
fn open_damaged(d: &Snap, what: &str, submitted: &BTreeMap<String, BTreeSet<String>>, cnt: &mut Counters) -> R<()> {
    let clo = model::closure(d);
    let m = match open(HStore::from_snap(d).ad()) {
        Ok(Ok(m)) => m,
        Ok(Err(_)) => {
            *cnt.entry("open_reported_error").or_insert(0) += 1;
            return Ok(());
        }
        Err(Fail::Panic { op, msg }) => return viol("C10", format!("{}: {} aborted instead of reporting an error: {}", what, op, msg)),
        Err(f) => return Err(f),
    };
    if clo.bad_pack {
        *cnt.entry("open_succeeded_despite_bad_pack").or_insert(0) += 1;
    }
    let want_m = match open(HStore::from_snap(&clo.items(d)).ad())? {
        Ok(m) => m,
        Err(e) => return viol("C10", format!("{}: cannot open the intact causally complete subset: {}", what, e)),
    };
    let conv = |r: R<Obs>| -> R<Obs> {
        match r {
            Err(Fail::Panic { op, msg }) => viol("C10", format!("{}: {} aborted on damaged storage: {}", what, op, msg)),
            x => x,
        }
    };
    let a = conv(obs(&m))?;
    let b = obs(&want_m)?;
    if a != b {
        return viol("C10", format!("{}: state differs from the state derived from the intact, causally complete items: {}", what, first_diff(&a, &b)));
    }
    let applied = applied_hook(&m);
    let want: BTreeSet<String> = clo.applied.keys().cloned().collect();
    if applied != want {
        return viol("C10", format!("{}: applied blocks {:?} differ from the intact complete blocks {:?}", what, applied, want));
    }
    if let Ok(Ok(doc)) = read_doc(&m) {
        if let Err(e) = contents_submitted(&doc, submitted) {
            return viol("C10", format!("{}: {}", what, e));
        }
    }
    *cnt.entry("damaged_opens_compared").or_insert(0) += 1;
    Ok(())
}

pub fn run(case: &C10Case, thorough: bool) -> CaseRes {
    let mut cnt = Counters::new();
    let mut w = match World::new(case.hist.n as usize, &case.hist.perms, &[]) {
        Ok(w) => w,
        Err(f) => return CaseRes { counters: cnt, nontrivial: false, result: Err(f), log: vec![], steps: 0 },
    };
    let mut steps = 0;
    let mut res: R<()> = Ok(());
    for op in &case.hist.ops {
        steps += 1;
        if let Err(f) = w.step(op) {
            res = Err(f);
            break;
        }
    }
    if res.is_ok() {
        res = w.converge(case.hist.fin.as_ref().unwrap());
    }
    let mut log = std::mem::take(&mut w.log);
    if res.is_err() {
        return CaseRes { counters: cnt, nontrivial: false, result: res, log, steps };
    }
    let intact = w.reps[0].store.snap();
    let order = w.reps[0].store.order();
    let keys: Vec<String> = order.clone();
    let submitted = w.submitted.clone();
    let clo0 = model::closure(&intact);
    let mut hit_dependency = false;
    let res = (|| -> R<()> {
        // each fault alone, then all together
        let mut all = intact.clone();
        for f in &case.faults {
            let mut d = intact.clone();
            if let Some(desc) = apply_fault(f, &mut d, &keys) {
                log.push(format!("fault: {}", desc));
                // does the damaged item have dependants?
                let broken: BTreeSet<String> = clo0.applied.keys().filter(|k| !model::closure(&d).applied.contains_key(*k)).cloned().collect();
                if broken.len() >= 2 {
                    hit_dependency = true;
                }
                open_damaged(&d, &format!("after [{}]", desc), &submitted, &mut cnt)?;
                steps += 1;
            }
            apply_fault(f, &mut all, &keys);
        }
        open_damaged(&all, "after all faults together", &submitted, &mut cnt)?;
        // refresh path: a live replica holds a prefix; the rest arrives damaged
        let split = gen::sel(case.split, order.len() + 1);
        let mut prefix = Snap::new();
        for k in order.iter().take(split) {
            prefix.insert(k.clone(), intact[k].clone());
        }
        let store = HStore::from_snap(&prefix);
        if let Ok(mut live) = open(store.ad())? {
            for (k, v) in &all {
                if !prefix.contains_key(k) {
                    store.put_raw(k, v);
                }
            }
            // items of the prefix stay intact: damage applies to what has not been loaded yet.
            // The refresh is repeated (a caller that sees an error tries again), and finally every damaged
            // or deleted item is restored to its intact bytes (junk stays) and the refresh runs once more:
            // every one of these refreshes must report an error and leave the state alone, or show exactly
            // the state of the intact, causally complete items held at that moment.
            let phases: [&str; 6] = if case.split % 2 == 0 {
                ["first refresh", "second refresh", "third refresh", "refresh after the damaged items were restored", "refresh once more after the restore", "reload at the end"]
            } else {
                ["first refresh", "reload on the damaged storage", "refresh after that reload", "refresh after the damaged items were restored", "reload after the restore", "refresh at the end"]
            };
            for phase in phases {
                if phase == "refresh after the damaged items were restored" {
                    for (k, v) in &intact {
                        if store.get(k).as_ref() != Some(v) {
                            store.set_raw(k, v.clone());
                            *cnt.entry("items_restored_before_a_refresh").or_insert(0) += 1;
                        }
                    }
                }
                let now = store.snap();
                let pre = obs(&live)?;
                let is_reload = phase.starts_with("reload");
                let r = match guard(if is_reload { "reload" } else { "refresh" }, || if is_reload { live.reload() } else { live.refresh() }) {
                    Ok(r) => r,
                    Err(Fail::Panic { op, msg }) => return viol("C10", format!("{} aborted on damaged storage ({}): {}", op, phase, msg)),
                    Err(f) => return Err(f),
                };
                log.push(format!("live replica (prefix of {} items), {} -> {:?}", split, phase, r.as_ref().map_err(|e| e.to_string())));
                match r {
                    Err(_) if is_reload => {
                        // a refused reload may leave the replica empty; what it shows is checked by the next phase
                        *cnt.entry("reload_reported_error").or_insert(0) += 1;
                    }
                    Err(_) => {
                        let post = obs(&live)?;
                        if post != pre {
                            return viol("C10", format!("{} reported an error on damaged storage but changed the state: {}", phase, first_diff(&pre, &post)));
                        }
                        *cnt.entry("refresh_reported_error").or_insert(0) += 1;
                    }
                    Ok(()) => {
                        let clo = model::closure(&now);
                        let want = match open(HStore::from_snap(&clo.items(&now)).ad())? {
                            Ok(m) => m,
                            Err(e) => return viol("C10", format!("cannot open closure: {}", e)),
                        };
                        let a = obs(&live)?;
                        let b = obs(&want)?;
                        if a != b {
                            return viol("C10", format!("{} on damaged storage: state differs from the intact, causally complete items: {}", phase, first_diff(&a, &b)));
                        }
                        *cnt.entry("damaged_refreshes_compared").or_insert(0) += 1;
                        if phase != "first refresh" {
                            *cnt.entry("repeated_refreshes_compared").or_insert(0) += 1;
                        }
                    }
                }
            }
        }
        // a long-lived replica: part of the items arrive and are refreshed (packs get indexed, some blocks stay
        // held back), THEN items the applied blocks do not depend on are damaged, then the rest arrives and is
        // refreshed: whatever that refresh newly applies must be intact and complete at that moment
        {
            let a = gen::sel(case.split, order.len() + 1);
            let b = a + gen::sel(case.sweep_item, order.len() - a + 1);
            let store = HStore::new();
            for k in order.iter().take(a) {
                store.put_raw(k, &intact[k]);
            }
            if let Ok(mut live) = open(store.ad())? {
                // second chunk in a permuted order so that blocks may precede their parents / packs
                let mut chunk: Vec<String> = order[a..b].to_vec();
                crate::store::permute(&mut chunk, case.split as u64 * 7919 + 13);
                for k in &chunk {
                    store.put_raw(k, &intact[k]);
                }
                if guard("refresh", || live.refresh())?.is_ok() {
                    let applied1 = applied_hook(&live);
                    // items the applied blocks depend on stay intact
                    let snap1 = store.snap();
                    let clo1 = model::closure(&snap1);
                    let mut protected: BTreeSet<String> = BTreeSet::new();
                    let mut needed_digests: BTreeSet<String> = BTreeSet::new();
                    for n in &applied1 {
                        protected.insert(format!("{}.delta", n));
                        if let Some(bl) = clo1.applied.get(n) {
                            for (_, r, p) in &bl.changes {
                                needed_digests.insert(model::rev_digest(r).to_string());
                                if let Some(p) = p {
                                    needed_digests.insert(model::rev_digest(p).to_string());
                                }
                            }
                            for pk in &bl.packs {
                                protected.insert(format!("{}.pack", pk));
                            }
                        }
                    }
                    for (k, v) in &snap1 {
                        if k.ends_with(".pack") && model::scan_pack(v).iter().any(|(d, _, _)| needed_digests.contains(d)) {
                            protected.insert(k.clone());
                        }
                    }
                    // only packs are damaged here: a block file that was already read (and is merely held back)
                    // has been interpreted while it was intact, which is all the property asks for
                    let victims: Vec<String> = store.order().into_iter().filter(|k| k.ends_with(".pack") && !protected.contains(k)).collect();
                    let mut damaged = false;
                    if !victims.is_empty() {
                        let mut s2 = store.snap();
                        for f in &case.faults {
                            if matches!(f, Fault::Junk { .. }) {
                                continue;
                            }
                            if let Some(desc) = apply_fault(f, &mut s2, &victims) {
                                log.push(format!("fault after the first refresh: {}", desc));
                                damaged = true;
                            }
                        }
                        for k in &victims {
                            match s2.get(k) {
                                Some(v) => {
                                    if store.get(k).as_ref() != Some(v) {
                                        store.set_raw(k, v.clone());
                                    }
                                }
                                None => store.remove_raw(k),
                            }
                        }
                    }
                    for k in order.iter().skip(b) {
                        store.put_raw(k, &intact[k]);
                    }
                    let r = match guard("refresh", || live.refresh()) {
                        Ok(r) => r,
                        Err(Fail::Panic { op, msg }) => return viol("C10", format!("{} aborted on storage damaged after a first refresh: {}", op, msg)),
                        Err(f) => return Err(f),
                    };
                    if r.is_ok() {
                        let now = store.snap();
                        let clo = model::closure(&now);
                        let applied2 = applied_hook(&live);
                        // a newly applied block must find every pack it names intact at that moment
                        let mut bad: Vec<String> = vec![];
                        for n in applied2.iter().filter(|n| !applied1.contains(*n)) {
                            if let Some(bl) = intact.get(&format!("{}.delta", n)).and_then(|b| model::parse_block(n, b)) {
                                if bl.packs.iter().any(|pk| !clo.packs.contains(pk)) {
                                    bad.push(n.clone());
                                }
                            }
                        }
                        if !bad.is_empty() {
                            return viol("C10", format!("refresh applied blocks {:?} although a pack they name was damaged or removed after it had been indexed (intact packs now: {:?})", bad, clo.packs));
                        }
                        if damaged {
                            *cnt.entry("refreshes_after_late_damage").or_insert(0) += 1;
                        }
                    }
                }
            }
        }
        // sweep: every position of one item (thorough) / 24 positions (quick), every truncation length
        if !keys.is_empty() {
            let k = &keys[gen::sel(case.sweep_item, keys.len())];
            let len = intact[k].len();
            let limit = if thorough { 700 } else { 24 };
            let stride = (len / limit).max(1);
            let mut p = 0;
            while p < len {
                let mut d = intact.clone();
                d.get_mut(k).unwrap()[p] ^= 1 << (case.sweep_bit % 8);
                open_damaged(&d, &format!("bit {} of byte {} of {} flipped", case.sweep_bit % 8, p, k), &submitted, &mut cnt)?;
                let mut d = intact.clone();
                d.get_mut(k).unwrap().truncate(p);
                open_damaged(&d, &format!("{} truncated to {}", k, p), &submitted, &mut cnt)?;
                *cnt.entry("sweep_positions").or_insert(0) += 1;
                p += stride;
                steps += 2;
            }
        }
        Ok(())
    })();
    if hit_dependency {
        *cnt.entry("faults_hitting_item_with_dependants").or_insert(0) += 1;
    }
    CaseRes { counters: cnt, nontrivial: hit_dependency, result: res, log, steps }
}

/// Oracle B: damage after indexing with capacity-1 caches (worker env): get_value returns an error or
/// the intact value; read() may fail but never returns altered content.
pub fn run_b(case: &C10Case) -> CaseRes {
    let mut cnt = Counters::new();
    let mut w = match World::new(case.hist.n as usize, &case.hist.perms, &[]) {
        Ok(w) => w,
        Err(f) => return CaseRes { counters: cnt, nontrivial: false, result: Err(f), log: vec![], steps: 0 },
    };
    let mut steps = 0;
    let mut res: R<()> = Ok(());
    for op in &case.hist.ops {
        steps += 1;
        if let Err(f) = w.step(op) {
            res = Err(f);
            break;
        }
    }
    if res.is_ok() {
        res = w.converge(case.hist.fin.as_ref().unwrap());
    }
    let mut log = std::mem::take(&mut w.log);
    if res.is_err() {
        return CaseRes { counters: cnt, nontrivial: false, result: res, log, steps };
    }
    let intact = w.reps[0].store.snap();
    let submitted = w.submitted.clone();
    let packs: Vec<String> = intact.keys().filter(|k| k.ends_with(".pack")).cloned().collect();
    let mut nontrivial = false;
    let res = (|| -> R<()> {
        let store = HStore::from_snap(&intact);
        let live = match open(store.ad())? {
            Ok(m) => m,
            Err(e) => return viol("C10", format!("cannot open intact storage: {}", e)),
        };
        // intact values of every revision
        let mut vals: BTreeMap<(String, String), String> = BTreeMap::new();
        for o in live.get_all_objects() {
            if let Some(t) = live.verif_tree(&o) {
                for (r, _, _) in t {
                    if let Ok(Ok(v)) = guard("get_value", || live.get_value(&o, Some(&r))) {
                        vals.insert((o.clone(), r), serde_json::to_string(&v).unwrap());
                    }
                }
            }
        }
        if packs.is_empty() {
            return Ok(());
        }
        // damage packs in place (after they were indexed)
        for f in &case.faults {
            let mut s = store.snap();
            if let Some(desc) = apply_fault(f, &mut s, &packs) {
                if desc.starts_with("inject") {
                    continue;
                }
                log.push(format!("fault after indexing: {}", desc));
                for (k, v) in &s {
                    if store.get(k).as_ref() != Some(v) {
                        store.set_raw(k, v.clone());
                    }
                }
                for k in store.keys() {
                    if !s.contains_key(&k) {
                        store.remove_raw(&k);
                    }
                }
            }
        }
        let mut errs = 0;
        for ((o, r), want) in &vals {
            match guard("get_value", || live.get_value(o, Some(r))) {
                Ok(Ok(v)) => {
                    let got = serde_json::to_string(&v).unwrap();
                    if &got != want {
                        return viol("C10", format!("get_value({:?},{}) returns altered content {} (intact: {}) after the pack was damaged", o, r, got, want));
                    }
                }
                Ok(Err(_)) => errs += 1,
                Err(_) => errs += 1,
            }
            steps += 1;
        }
        if errs > 0 {
            nontrivial = true;
            *cnt.entry("get_value_errors_after_damage").or_insert(0) += errs;
        }
        if let Ok(Ok(doc)) = read_doc(&live) {
            if let Err(e) = contents_submitted(&doc, &submitted) {
                return viol("C10", format!("read() after pack damage: {}", e));
            }
            *cnt.entry("reads_after_damage_ok").or_insert(0) += 1;
        } else {
            *cnt.entry("reads_after_damage_failed").or_insert(0) += 1;
        }
        Ok(())
    })();
    CaseRes { counters: cnt, nontrivial, result: res, log, steps }
}
