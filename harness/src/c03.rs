//! C03 "deep" part: JSON content (and commit metadata) nested to a given depth must be as durable as
//! any other content. Fixed work: depths around serde_json's parser recursion limit, three places.
//! On the pinned tree depths >= 127 fail (known finding, see known_findings.txt).
use crate::runner::{Violation, WorkerResult};
use crate::store::HStore;
use crate::world::*;
use serde_json::{json, Value};

fn nested(depth: usize, objects: bool) -> Value {
    let mut v = json!(1);
    for k in 0..depth {
        v = if objects && k % 2 == 0 { json!({ "k": v }) } else { json!([v]) };
    }
    v
}

fn one(depth: usize, place: &str) -> R<Option<String>> {
    let store = HStore::new();
    let m = match open(store.ad())? {
        Ok(m) => m,
        Err(e) => return Ok(Some(format!("cannot open: {}", e))),
    };
    // the document adds 1 (verbatim field), 2 (element of a flattened array: array + object) levels itself;
    // `depth` is the nesting of the generated value
    let v = nested(depth, place == "element");
    let doc = match place {
        "field" => json!({ "deep": v }),
        "element" => json!({ "a\u{266D}": [{ "_id": "p", "v": v }] }),
        _ => json!({ "t": 1 }),
    };
    let info = if place == "info" { Some(json!({ "deep": v }).as_object().unwrap().clone()) } else { None };
    let d = doc.as_object().unwrap().clone();
    if guard("update", || m.update(d))?.is_err() {
        return Ok(None); // refused up front: nothing was promised
    }
    match guard("commit", || m.commit(info))? {
        Ok(Some(_)) => {}
        _ => return Ok(None),
    }
    let live = obs_full(&m)?;
    let fresh = match open(store.ad()) {
        Ok(Ok(f)) => f,
        Ok(Err(e)) => return Ok(Some(format!("reopen failed: {}", e))),
        Err(Fail::Panic { op, msg }) => return Ok(Some(format!("{} aborted on reopen: {}", op, msg))),
        Err(f) => return Err(f),
    };
    match obs_full(&fresh) {
        Ok(o) => {
            if o != live {
                return Ok(Some(format!("reopened replica differs: {}", first_diff_full(&live, &o))));
            }
        }
        Err(Fail::Panic { op, msg }) => return Ok(Some(format!("{} aborts on the reopened replica: {}", op, msg))),
        Err(f) => return Err(f),
    }
    Ok(None)
}

pub fn run() -> WorkerResult {
    let mut r = WorkerResult { part: "deep".into(), exhaustive: true, ..Default::default() };
    let mut shallow_fail = vec![];
    let mut deep_fail = vec![];
    for depth in [1usize, 8, 40, 100, 120, 124, 125, 126, 127, 128, 129, 160, 200, 400] {
        for place in ["field", "element", "info"] {
            r.evaluations += 1;
            match one(depth, place) {
                Ok(None) => {}
                Ok(Some(msg)) => {
                    // the value sits inside the document / block: total nesting = depth + wrapper levels
                    let total = depth + match place { "field" => 1, "element" => 1, _ => 2 };
                    if total >= 128 {
                        deep_fail.push(format!("depth {} in {}: {}", depth, place, msg));
                    } else {
                        shallow_fail.push(format!("depth {} in {}: {}", depth, place, msg));
                    }
                }
                Err(f) => shallow_fail.push(format!("depth {} in {}: {:?}", depth, place, f)),
            }
            if depth >= 40 {
                r.nontrivial_count += 1;
            }
        }
    }
    r.samples.push(json!({"depths": [1, 8, 40, 100, 120, 124, 125, 126, 127, 128, 129, 160, 200, 400], "places": ["field", "element", "info"]}));
    if !shallow_fail.is_empty() {
        r.violation = Some(Violation { prop: "C03".into(), msg: format!("content of ordinary nesting depth is not durable: {}", shallow_fail.join(" ; ")), case: json!({"part": "deep"}), part: "deep".into(), kind: "oracle".into(), ..Default::default() });
    } else if !deep_fail.is_empty() {
        r.counters.insert("deep_nesting_failures".into(), deep_fail.len() as u64);
        r.violation = Some(Violation { prop: "C03".into(), msg: format!("content nested 127 or more levels deep is committed but not durable ({} of the deep inputs): {}", deep_fail.len(), deep_fail.iter().take(3).cloned().collect::<Vec<_>>().join(" ; ")), case: json!({"part": "deep"}), part: "deep".into(), kind: "oracle".into(), ..Default::default() });
    }
    r.notes.push("fixed inputs: nesting depths 1..400 around the JSON parser's recursion limit, in a verbatim field, in an array element and in commit metadata; non-trivial = depth >= 40".into());
    r
}
