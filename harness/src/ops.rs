//! Operation interpreter with the per-operation oracles.
use crate::gen::{self, info_map, Node, Op};
use crate::inv;
use crate::model;
use crate::world::*;
use serde_json::{Map, Value};
use std::collections::BTreeSet;

fn canon_stage(s: &Option<Value>) -> String {
    match s {
        None => "none".into(),
        Some(v) => {
            let mut v = v.clone();
            if let Some(c) = v.get_mut("c").and_then(|c| c.as_array_mut()) {
                c.sort_by_key(|x| x.to_string());
            }
            v.to_string()
        }
    }
}

impl World {
    /// Compare the live instance with a fresh instance on the same storage under the
    /// "storage may be ahead of the instance" rule. Returns the fresh instance's full observation.
    pub fn live_equals_fresh(&mut self, i: usize, prop: &'static str, what: &str) -> R<()> {
        if self.reps[i].traveled {
            return Ok(());
        }
        let pend = self.pending(i);
        if !pend.is_empty() {
            self.bump("pending_nonempty_implicit_refresh");
            self.log.push(format!("   (implicit refresh of r{}: storage ahead by {:?})", i, pend));
            let rep = &mut self.reps[i];
            if guard("has_staging", || rep.m.has_staging())? {
                return Ok(());
            }
            let r = guard("refresh", || rep.m.refresh())?;
            if let Err(e) = r {
                return viol(prop, format!("{}: implicit refresh failed: {}", what, e));
            }
        }
        let fresh = match self.fresh(i)? {
            Ok(m) => m,
            Err(e) => return viol(prop, format!("{}: cannot open a fresh replica on the same storage: {}", what, e)),
        };
        let a = obs_full(&self.reps[i].m)?;
        let b = obs_full(&fresh)?;
        if a != b {
            return viol(prop, format!("{}: live instance and freshly opened instance differ: {}", what, first_diff_full(&a, &b)));
        }
        Ok(())
    }

    fn after_step(&mut self, touched: &[usize]) -> R<()> {
        for &i in touched {
            if self.is("C05") {
                inv::check_c05(self, i)?;
            }
            if self.is("C13") {
                inv::check_c13(self, i)?;
            }
            if self.is("C19") {
                inv::check_c19(self, i)?;
            }
            if self.is("C08") {
                inv::check_c08_getters(self, i)?;
            }
            if self.is("C14") {
                inv::record_revs(self, i)?;
            }
        }
        if self.is("C11") {
            inv::check_c11(self)?;
        }
        Ok(())
    }

    pub fn step(&mut self, op: &Op) -> R<()> {
        match op {
            Op::Update { r, edit } => {
                let i = self.rix(*r);
                self.op_update(i, edit)?;
                self.after_step(&[i])
            }
            Op::Commit { r, info } => {
                let i = self.rix(*r);
                self.op_commit(i, info_map(info))?;
                self.after_step(&[i])
            }
            Op::MeldRefresh { r, from } => {
                let i = self.rix(*r);
                let j = self.peer(i, *from);
                self.op_meld(i, j)?;
                self.op_refresh(i)?;
                self.after_step(&[i])
            }
            Op::Meld { r, from } => {
                let i = self.rix(*r);
                let j = self.peer(i, *from);
                self.op_meld(i, j)?;
                self.after_step(&[i])
            }
            Op::Refresh { r } => {
                let i = self.rix(*r);
                self.op_refresh(i)?;
                self.after_step(&[i])
            }
            Op::Reload { r } => {
                let i = self.rix(*r);
                self.op_reload(i)?;
                self.after_step(&[i])
            }
            Op::Reopen { r } => {
                let i = self.rix(*r);
                self.op_reopen(i)?;
                self.after_step(&[i])
            }
            Op::FileCopy { r, from, count, perm, refresh_each } => {
                let i = self.rix(*r);
                let j = self.peer(i, *from);
                self.op_filecopy(i, j, *count, *perm, *refresh_each)?;
                self.after_step(&[i])
            }
            Op::Resolve { r, obj, leaf } => {
                let i = self.rix(*r);
                self.op_resolve(i, *obj, *leaf)?;
                self.after_step(&[i])
            }
            Op::Unstage { r } => {
                let i = self.rix(*r);
                self.op_unstage(i)?;
                self.after_step(&[i])
            }
            Op::StageRoundTrip { r } => {
                let i = self.rix(*r);
                self.op_stage_roundtrip(i)?;
                self.after_step(&[i])
            }
            Op::Snapshot { r } => {
                let i = self.rix(*r);
                self.op_snapshot(i)?;
                self.after_step(&[i])
            }
            Op::TimeTravel { r, heads } => {
                let i = self.rix(*r);
                self.op_timetravel(i, *heads)?;
                self.after_step(&[i])
            }
            Op::MergeCommit { r, from, edit } => {
                let i = self.rix(*r);
                let j = self.peer(i, *from);
                self.op_commit(j, None)?;
                self.after_step(&[j])?;
                self.op_meld(i, j)?;
                self.op_refresh(i)?;
                self.op_update(i, edit)?;
                self.op_commit(i, None)?;
                self.after_step(&[i])
            }
            Op::Resubmit { r } => {
                let i = self.rix(*r);
                if let Some(d) = self.reps[i].last_doc.clone() {
                    self.bump("resubmissions");
                    self.submit(i, d, None)?;
                }
                self.after_step(&[i])
            }
            Op::TornBlock { r, from, pick, complete } => {
                let i = self.rix(*r);
                if *complete {
                    self.complete_torn(Some(i));
                } else {
                    let j = self.peer(i, *from);
                    let have = self.reps[i].store.keys();
                    let cand: Vec<(String, Vec<u8>)> =
                        self.reps[j].store.snap().into_iter().filter(|(k, v)| k.ends_with(".delta") && !have.contains(k) && v.len() >= 2 && !self.torn.contains(&(j, k.clone()))).collect();
                    if !cand.is_empty() {
                        let (name, bytes) = &cand[gen::sel(*pick, cand.len())];
                        self.reps[i].store.put_raw(name, &bytes[..bytes.len() / 2]);
                        self.torn.insert((i, name.clone()));
                        self.log.push(format!("r{}: block file {} of r{} arrives half-written ({} of {} bytes)", i, name, j, bytes.len() / 2, bytes.len()));
                        self.bump("torn_blocks_placed");
                    }
                }
                self.after_step(&[i])
            }
            Op::ReplayOnto { r, mode, edit } => {
                let i = self.rix(*r);
                self.op_replay_onto(i, *mode, edit)?;
                self.after_step(&[i])
            }
            Op::SnapshotRace { r, from, e1, e2, e3 } => {
                let i = self.rix(*r);
                let j = self.peer(i, *from);
                let k = (0..self.n()).find(|x| *x != i && *x != j).unwrap_or(j);
                self.bump("snapshot_races");
                for x in [i, j, k] {
                    self.op_commit(x, None)?;
                }
                for (a, b) in [(i, j), (j, i), (k, i), (k, j)] {
                    self.op_meld(a, b)?;
                    self.op_refresh(a)?;
                }
                self.after_step(&[i, j, k])?;
                self.op_update(j, e1)?;
                self.op_commit(j, None)?;
                self.op_update(i, e2)?;
                self.op_commit(i, None)?;
                self.op_meld(i, j)?;
                self.op_refresh(i)?;
                if self.array_in_conflict(i)? {
                    self.bump("snapshot_races_with_array_conflict");
                }
                self.op_meld(k, i)?;
                self.op_meld(k, j)?;
                self.op_refresh(k)?;
                self.after_step(&[i, j, k])?;
                self.op_snapshot(i)?;
                self.op_commit(i, None)?;
                self.op_update(k, e3)?;
                self.op_commit(k, None)?;
                self.op_meld(i, k)?;
                self.op_refresh(i)?;
                self.after_step(&[i, j, k])
            }
            Op::FaultyMeld { r, from, what, mask } => {
                let i = self.rix(*r);
                let j = self.peer(i, *from);
                if i != j {
                    let suffix = [".delta", ".pack", ""][*what as usize % 3].to_string();
                    self.log.push(format!("reads of r{}'s storage ending in {:?} fail by mask {:#x} during the next meld", j, suffix, mask));
                    self.reps[j].store.with(|s| {
                        s.read_faults = Some((suffix, *mask));
                        s.reads_in_fault = 0;
                        s.failed_reads = 0;
                    });
                    let r = self.op_meld(i, j);
                    let failed = self.reps[j].store.with(|s| {
                        s.read_faults = None;
                        s.failed_reads
                    });
                    r?;
                    if failed > 0 {
                        self.bump("melds_with_failed_source_reads");
                    }
                }
                self.after_step(&[i, j])
            }
            Op::Foreign { r, k } => {
                let i = self.rix(*r);
                let (name, bytes) = gen::foreign_item(*k);
                self.log.push(format!("r{} foreign item {} ({} bytes) appears in storage", i, name, bytes.len()));
                self.universe.entry(name.clone()).or_insert_with(|| bytes.clone());
                self.reps[i].store.put_raw(&name, &bytes);
                self.bump("foreign_items_placed");
                self.after_step(&[i])
            }
            Op::FaultyCommit { r, k, info } => {
                let i = self.rix(*r);
                self.op_faulty_commit(i, *k, info_map(info))?;
                self.after_step(&[i])
            }
            Op::Churn { r, n, commit_each } => {
                let i = self.rix(*r);
                self.op_churn(i, *n, *commit_each)?;
                self.after_step(&[i])
            }
            Op::LowLevel { r, kind, id, content } => {
                let i = self.rix(*r);
                self.op_lowlevel(i, *kind, *id, &content.to_value())?;
                self.after_step(&[i])
            }
        }
    }

    pub fn array_in_conflict(&self, i: usize) -> R<bool> {
        let m = &self.reps[i].m;
        Ok(guard("in_conflict", || m.in_conflict())?.iter().any(|u| u.starts_with('^')))
    }

    // ------------------------------------------------------------------ update (C04)
    pub fn op_update(&mut self, i: usize, edit: &[gen::EditStep]) -> R<()> {
        let base = match read_doc(&self.reps[i].m)? {
            Ok(d) => Node::from_value(&d),
            Err(_) => Node::default(),
        };
        let mut node = base.clone();
        gen::apply_edit(&mut node, edit);
        let doc = node.to_value();
        self.submit(i, doc, Some(&base))
    }

    /// submit a whole document through update() and run the C04 oracles
    pub fn submit(&mut self, i: usize, doc: Value, base: Option<&Node>) -> R<()> {
        let docmap: Map<String, Value> = doc.as_object().cloned().unwrap_or_default();
        let arrconf = self.array_in_conflict(i)?;
        let objconf = !guard("in_conflict", || self.reps[i].m.in_conflict())?.is_empty();
        self.log.push(format!("r{} update {}", i, doc));
        // C16: versions of the array descriptors known before the update
        let mut c16_arrays: Vec<(String, Vec<String>)> = vec![];
        let mut c16_before: std::collections::BTreeMap<String, BTreeSet<String>> = Default::default();
        if self.is("C16") {
            model::doc_arrays(&doc, &mut vec![], &mut c16_arrays);
            for (d, _) in &c16_arrays {
                let revs = self.reps[i].m.verif_tree(d).map(|t| t.into_iter().map(|x| x.0).collect()).unwrap_or_default();
                c16_before.insert(d.clone(), revs);
            }
        }
        let res = {
            let m = &self.reps[i].m;
            let d = docmap.clone();
            guard("update", move || m.update(d))?
        };
        if let Err(e) = res {
            self.bump("update_err");
            self.log.push(format!("   -> Err {}", e));
            return Ok(());
        }
        self.bump("updates");
        if self.is("C16") {
            // every version of a flattened array that this update stored must reconstruct -- from the stored
            // descriptors, with the reference script applier -- to exactly the array that was submitted,
            // whatever the replica had cached and whether or not the array is in conflict
            let mut seen: BTreeSet<&String> = BTreeSet::new();
            for (d, want) in &c16_arrays {
                if want.iter().any(|x| x == "<noid>") || !seen.insert(d) {
                    continue;
                }
                let now: BTreeSet<String> = self.reps[i].m.verif_tree(d).map(|t| t.into_iter().map(|x| x.0).collect()).unwrap_or_default();
                let new: Vec<&String> = now.difference(&c16_before[d]).collect();
                for r in new {
                    match inv::leaf_order(&self.reps[i].m, d, r)? {
                        Ok(o) => {
                            let got: Vec<String> = o.iter().filter_map(|x| x.as_str().map(|s| s.to_string())).collect();
                            if &got != want {
                                return viol("C16", format!("version {} of {} stored by this update reconstructs to {:?}, submitted was {:?}", r, d, got, want));
                            }
                            self.bump("c16_new_versions_checked");
                            if arrconf {
                                self.bump("c16_new_versions_while_an_array_is_in_conflict");
                            }
                        }
                        Err(e) => return viol("C16", format!("version {} of {} stored by this update cannot be reconstructed: {}", r, d, e)),
                    }
                }
            }
        }
        self.reps[i].last_doc = Some(doc.clone());
        // bookkeeping: contents submitted per id
        let mut tr = vec![];
        model::collect_tracked(&doc, &mut vec![], &mut tr);
        let n_objects = tr.len();
        for (id, own) in &tr {
            self.submitted.entry(id.clone()).or_default().insert(own.to_string());
        }
        if n_objects >= 8 {
            self.bump("updates_touching_8_objects");
        }
        if self.is("C04") {
            // a read that aborts right after a successful update does not return the submitted document either
            let back = match read_doc(&self.reps[i].m) {
                Err(Fail::Panic { op, msg }) => return viol("C04", format!("{} aborts right after a successful update instead of returning the submitted document: {} (submitted {})", op, msg, doc)),
                x => x?,
            };
            let back = match back {
                Ok(b) => b,
                Err(e) => return viol("C04", format!("read after update failed: {} (submitted {})", e, doc)),
            };
            if !arrconf {
                if !model::eq_mod_id(&doc, &back, true) {
                    return viol("C04", format!("read after update differs from the submitted document:\n submitted {}\n read      {}", doc, back));
                }
                self.bump("c04_exact_readbacks");
            } else {
                let mut g = vec![];
                model::collect_tracked(&back, &mut vec![], &mut g);
                let mut e = tr.clone();
                e.sort_by(|a, b| a.0.cmp(&b.0));
                g.sort_by(|a, b| a.0.cmp(&b.0));
                // an object placed under a flattened *object* key may be claimed by the pending array
                // merge ("array membership may still reflect the pending merge"): the key then reads null
                let relax = |sub: &Value, got: &Value| -> bool {
                    match (sub.as_object(), got.as_object()) {
                        (Some(s), Some(g)) => {
                            s.len() == g.len()
                                && s.iter().all(|(k, sv)| match g.get(k) {
                                    None => false,
                                    Some(gv) => sv == gv || (k.ends_with(model::FLAT) && sv == "<object>" && gv.is_null()),
                                })
                        }
                        _ => sub == got,
                    }
                };
                let same = e.len() == g.len() && e.iter().zip(g.iter()).all(|(a, b)| a.0 == b.0 && relax(&a.1, &b.1));
                if !same {
                    return viol("C04", format!("array in conflict: tracked objects read differ from those submitted:\n submitted {:?}\n read      {:?}", e, g));
                }
                self.bump("c04_conflict_case_readbacks");
            }
            if objconf {
                self.bump("c04_updates_with_object_conflict");
            }
            if let Some(b) = base {
                let before: BTreeSet<(String, String)> = arr_membership(&b.to_value());
                let after: BTreeSet<(String, String)> = arr_membership(&doc);
                let moved = after.iter().any(|(id, arr)| before.iter().any(|(i2, a2)| i2 == id && a2 != arr));
                if moved {
                    self.bump("c04_updates_with_move_between_arrays");
                }
                if kinds(&b.to_value()) != kinds(&doc) {
                    self.bump("c04_updates_with_kind_change");
                }
            }
            // idempotence
            let o1 = obs_full(&self.reps[i].m)?;
            let s1 = canon_stage(&guard("stage", || self.reps[i].m.stage())?.unwrap_or(None));
            let k1 = self.reps[i].store.keys();
            let r2 = {
                let m = &self.reps[i].m;
                let d = docmap.clone();
                guard("update", move || m.update(d))?
            };
            if let Err(e) = r2 {
                return viol("C04", format!("second submission of the same document failed: {}", e));
            }
            let o2 = obs_full(&self.reps[i].m)?;
            let s2 = canon_stage(&guard("stage", || self.reps[i].m.stage())?.unwrap_or(None));
            let k2 = self.reps[i].store.keys();
            if o1 != o2 {
                return viol("C04", format!("submitting the same document twice changed the state: {}", first_diff_full(&o1, &o2)));
            }
            if s1 != s2 {
                return viol("C04", format!("submitting the same document twice changed the staged changes:\n {}\n {}", s1, s2));
            }
            if k1 != k2 {
                return viol("C04", "submitting the same document twice wrote to storage".into());
            }
        }
        Ok(())
    }

    /// commit with an injected write failure; afterwards the replica must be as usable as before
    pub fn op_faulty_commit(&mut self, i: usize, k: u8, info: Option<Map<String, Value>>) -> R<()> {
        let staged = guard("has_staging", || self.reps[i].m.has_staging())?;
        let pre = obs(&self.reps[i].m)?;
        let w0 = self.reps[i].store.with(|s| {
            let w0 = s.writes;
            s.fail_at.insert(w0 + k as usize);
            w0
        });
        let res = guard("commit", || self.reps[i].m.commit(info))?;
        let hit = self.reps[i].store.with(|s| {
            let hit = s.writes > w0 + k as usize;
            s.fail_at.clear();
            hit
        });
        self.log.push(format!("r{} commit with write #{} failing (reached: {}) -> {:?}", i, k, hit, res.as_ref().map(|x| x.is_some()).map_err(|e| e.to_string())));
        if !hit {
            if let Ok(Some(_)) = res {
                self.record_heads(i)?;
                self.set_quiescent(i)?;
            }
            return Ok(());
        }
        self.bump("commits_with_injected_write_failure");
        if res.is_ok() {
            // reported success although a write failed: C09's business (checked there); keep bookkeeping sane
            self.set_quiescent(i)?;
            return Ok(());
        }
        if self.is("C15") {
            if staged && !guard("has_staging", || self.reps[i].m.has_staging())? {
                return viol("C15", "a commit failed on a storage write error and the staged changes are no longer reported as staged (has_staging() false): they can neither be exported nor discarded, and reload would drop them silently".into());
            }
            let st = guard("stage", || self.reps[i].m.stage())?.unwrap_or(None);
            if staged && st.is_none() {
                return viol("C15", "a commit failed on a storage write error and stage() exports nothing although changes were staged".into());
            }
            self.bump("c15_failed_commits_checked");
        }
        if self.is("C12") {
            let post = obs(&self.reps[i].m)?;
            if post.doc != pre.doc {
                return viol("C12", format!("a failed commit changed the visible document:\n before {}\n after  {}", pre.doc, post.doc));
            }
        }
        Ok(())
    }

    /// n successive updates that only change one verbatim field of the root object; the last one goes
    /// through the full update oracle
    pub fn op_churn(&mut self, i: usize, n: u8, commit_each: bool) -> R<()> {
        let base = match read_doc(&self.reps[i].m)? {
            Ok(d) => d,
            Err(_) => Value::from(Map::new()),
        };
        let mut doc = base.as_object().cloned().unwrap_or_default();
        self.log.push(format!("r{} churn n={} commit_each={}", i, n, commit_each));
        for k in 0..n {
            doc.insert("n".into(), Value::from(format!("churn-{}", k)));
            if k + 1 == n {
                self.submit(i, Value::from(doc.clone()), None)?;
            } else {
                let d = doc.clone();
                let r = guard("update", || self.reps[i].m.update(d))?;
                if r.is_err() {
                    return Ok(());
                }
                // bookkeeping: these contents were submitted too
                let mut tr = vec![];
                model::collect_tracked(&Value::from(doc.clone()), &mut vec![], &mut tr);
                for (id, own) in &tr {
                    self.submitted.entry(id.clone()).or_default().insert(own.to_string());
                }
            }
            if commit_each {
                self.op_commit(i, None)?;
            }
        }
        self.bump("churns");
        if n >= 99 {
            self.bump("churns_past_index_100");
        }
        Ok(())
    }

    // ------------------------------------------------------------------ commit (C03 C04 C12 C13 C15)
    pub fn op_commit(&mut self, i: usize, info: Option<Map<String, Value>>) -> R<()> {
        let staged = guard("has_staging", || self.reps[i].m.has_staging())?;
        let arrconf = self.array_in_conflict(i)?;
        let objconf = !guard("in_conflict", || self.reps[i].m.in_conflict())?.is_empty();
        let pre = obs_full(&self.reps[i].m)?;
        let pre_keys = self.reps[i].store.keys();
        let stage_before = guard("stage", || self.reps[i].m.stage())?.unwrap_or(None);
        let info_s = info.as_ref().map(|i| serde_json::to_string(i).unwrap()).unwrap_or_else(|| "-".into());
        let res = {
            let m = &self.reps[i].m;
            let inf = info.clone();
            guard("commit", move || m.commit(inf))?
        };
        self.log.push(format!("r{} commit info={} -> {:?}", i, info_s, res.as_ref().map(|r| r.as_ref().map(|s| s.iter().map(|d| d.to_string()).collect::<Vec<_>>())).map_err(|e| e.to_string())));
        let res = match res {
            Ok(r) => r,
            Err(e) => {
                self.bump("commit_err");
                if self.is("C09") {
                    return viol("C09", format!("commit failed on a fault-free backend: {}", e));
                }
                return Ok(());
            }
        };
        let post = obs_full(&self.reps[i].m)?;
        let post_keys = self.reps[i].store.keys();
        if self.is("C12") && pre.core.doc != post.core.doc {
            return viol("C12", format!("commit changed the visible document (array conflict before: {}):\n before {}\n after  {}", arrconf, pre.core.doc, post.core.doc));
        }
        if staged && (arrconf || objconf) {
            self.bump("commits_with_staging_in_conflict");
        }
        if staged && arrconf {
            self.bump("commits_auto_resolving_array");
        }
        match res {
            None => {
                if self.is("C04") {
                    if staged {
                        return viol("C04", "commit reported no commit although changes were staged".into());
                    }
                    if pre_keys != post_keys {
                        return viol("C04", "commit with nothing staged wrote to storage".into());
                    }
                    if pre != post {
                        return viol("C04", "commit with nothing staged changed the state".into());
                    }
                    self.bump("c04_empty_commits");
                }
            }
            Some(anchors) => {
                self.bump("commits");
                let new: Vec<&String> = post_keys.difference(&pre_keys).collect();
                let new_blocks: Vec<String> = new.iter().filter_map(|k| k.strip_suffix(".delta")).map(|s| s.to_string()).collect();
                let a: BTreeSet<String> = anchors.iter().map(|d| d.to_string()).collect();
                if let Some(b) = a.iter().next() {
                    self.infos.insert(b.clone(), info_s.clone());
                }
                if self.is("C04") && !staged {
                    return viol("C04", "commit reported a commit although nothing was staged".into());
                }
                if self.is("C13") {
                    // exactly one block; it is new unless a byte-identical block (same changes, parents and
                    // metadata, content-addressed) was already lying in storage, in which case nothing is written
                    if new_blocks.len() > 1 || a.len() != 1 {
                        return viol("C13", format!("a successful commit created {} blocks {:?} and returned {:?}", new_blocks.len(), new_blocks, a));
                    }
                    let nbname = a.iter().next().unwrap().clone();
                    if new_blocks.len() == 1 && new_blocks[0] != nbname {
                        return viol("C13", format!("commit returned {:?} but wrote block {:?}", a, new_blocks));
                    }
                    if new_blocks.is_empty() {
                        if !pre_keys.contains(&format!("{}.delta", nbname)) {
                            return viol("C13", format!("commit returned {:?} but no such block is in storage", a));
                        }
                        self.bump("c13_commit_of_block_already_in_storage");
                    }
                    let new_blocks = vec![nbname];
                    if post.heads != a {
                        return viol("C13", format!("after commit the heads are {:?}, not the new block {:?}", post.heads, a));
                    }
                    let nb = &new_blocks[0];
                    let bytes = self.reps[i].store.get(&format!("{}.delta", nb)).unwrap();
                    let Some(b) = model::parse_block(nb, &bytes) else {
                        return viol("C13", format!("committed block {} fails the reference parser: {}", nb, String::from_utf8_lossy(&bytes)));
                    };
                    if b.parents != pre.heads {
                        return viol("C13", format!("parents of the new block {:?} are not the previous heads {:?}", b.parents, pre.heads));
                    }
                    if pre.heads.len() >= 2 {
                        self.bump("c13_commits_with_2_parents");
                    }
                    if self.reps[i].traveled {
                        self.bump("c13_commits_after_time_travel");
                    }
                }
                if self.is("C15") {
                    if post.staging {
                        return viol("C15", "has_staging() is true right after a successful commit".into());
                    }
                    let st = guard("stage", || self.reps[i].m.stage())?.unwrap_or(None);
                    if st.is_some() {
                        return viol("C15", format!("stage() is not empty right after a successful commit: {}", canon_stage(&st)));
                    }
                }
                if self.is("C04") {
                    let k1 = self.reps[i].store.keys();
                    let again = guard("commit", || self.reps[i].m.commit(None))?;
                    match again {
                        Ok(None) => {}
                        Ok(Some(x)) => return viol("C04", format!("commit right after a commit created another block {:?}", x)),
                        Err(e) => return viol("C04", format!("commit right after a commit failed: {}", e)),
                    }
                    if k1 != self.reps[i].store.keys() {
                        return viol("C04", "commit right after a commit wrote to storage".into());
                    }
                }
                if self.is("C03") && !self.reps[i].traveled {
                    // classify
                    if let Some(st) = &stage_before {
                        let mut recs = Default::default();
                        model::stage_records(st, &mut recs);
                        if recs.values().any(|r| r.len() >= 2) {
                            self.bump("c03_commits_with_chain_ge2");
                        }
                        let txt = st.to_string();
                        if txt.contains("\\\"") || txt.contains("\\\\") || txt.contains('{') && txt.matches('{').count() != txt.matches('}').count() {
                            self.bump("c03_commits_with_tricky_strings");
                        }
                        if txt.contains("e-") || txt.contains("e+") || txt.contains("e1") || txt.contains("e2") || txt.contains("e3") {
                            self.bump("c03_commits_with_exponent_floats");
                        }
                    }
                    if pre.heads.is_empty() {
                        self.bump("c03_first_commits");
                    }
                    let nb = a.iter().next().cloned().unwrap_or_default();
                    self.live_equals_fresh(i, "C03", &format!("after commit {}", nb))?;
                    // the new block itself must be applied by a fresh instance
                    let fresh = self.fresh(i)?.map_err(|e| Fail::Violation { prop: "C03", msg: e })?;
                    if !applied_hook(&fresh).contains(&nb) {
                        return viol("C03", format!("the block {} just committed is not applied by a freshly opened replica", nb));
                    }
                    self.bump("c03_commits_checked");
                }
                self.record_heads(i)?;
            }
        }
        self.set_quiescent(i)?;
        Ok(())
    }

    // ------------------------------------------------------------------ meld (C12 C11)
    /// the half-written items of one replica (or of all) receive their remaining bytes
    pub fn complete_torn(&mut self, only: Option<usize>) {
        let torn: Vec<(usize, String)> = self.torn.iter().filter(|(i, _)| only.map_or(true, |o| o == *i)).cloned().collect();
        for (i, name) in torn {
            if let Some(b) = self.universe.get(&name).cloned().or_else(|| self.reps.iter().enumerate().find_map(|(x, r)| if self.torn.contains(&(x, name.clone())) { None } else { r.store.get(&name) })) {
                self.reps[i].store.set_raw(&name, b);
                self.torn.remove(&(i, name.clone()));
                self.log.push(format!("r{}: half-written item {} completed", i, name));
                self.bump("torn_blocks_completed");
            }
        }
    }

    pub fn op_meld(&mut self, i: usize, j: usize) -> R<()> {
        if i == j {
            return Ok(());
        }
        let pre = if self.is("C12") { Some(obs_full(&self.reps[i].m)?) } else { None };
        let res = {
            let (a, b) = if i < j {
                let (x, y) = self.reps.split_at_mut(j);
                (&x[i], &y[0])
            } else {
                let (x, y) = self.reps.split_at_mut(i);
                (&y[0], &x[j])
            };
            guard("meld", || a.m.meld(&b.m))?
        };
        self.log.push(format!("r{} meld from r{} -> {:?}", i, j, res.as_ref().map(|v| v.len()).map_err(|e| e.to_string())));
        if let Ok(v) = &res {
            if !v.is_empty() {
                self.bump("melds_copying_items");
            }
            if v.iter().any(|k| !k.ends_with(".delta") && !k.ends_with(".pack")) {
                self.bump("melds_copying_foreign_items");
            }
        }
        if let Some(pre) = pre {
            let post = obs_full(&self.reps[i].m)?;
            if pre != post {
                return viol("C12", format!("meld without refresh changed the replica: {}", first_diff_full(&pre, &post)));
            }
            self.bump("c12_melds_checked");
        }
        Ok(())
    }

    // ------------------------------------------------------------------ refresh (C02 C12 C15)
    pub fn op_refresh(&mut self, i: usize) -> R<()> {
        let staged = guard("has_staging", || self.reps[i].m.has_staging())?;
        let pre = obs_full(&self.reps[i].m)?;
        let was_pending = self.pending(i);
        let was_traveled = self.reps[i].traveled;
        let known_before = self.reps[i].m.verif_block_status();
        let res = guard("refresh", || self.reps[i].m.refresh())?;
        self.log.push(format!("r{} refresh -> {:?}", i, res.as_ref().map_err(|e| e.to_string())));
        if staged {
            if self.is("C15") {
                if res.is_ok() {
                    return viol("C15", "refresh ran although changes were staged".into());
                }
                let post = obs_full(&self.reps[i].m)?;
                if pre != post {
                    return viol("C15", format!("refused refresh changed the state: {}", first_diff_full(&pre, &post)));
                }
                self.bump("c15_refused_refresh");
            }
            return Ok(());
        }
        if let Err(e) = res {
            self.bump("refresh_err");
            if self.is("C02") {
                return viol("C02", format!("refresh failed on intact storage: {}", e));
            }
            return Ok(());
        }
        self.reps[i].traveled = false;
        if known_before.values().any(|s| *s == "blocked") {
            self.bump("refresh_with_held_back_blocks");
        }
        if was_pending.len() >= 3 {
            self.bump("refresh_applying_3_blocks");
        }
        if self.is("C12") && was_pending.is_empty() && !was_traveled {
            let post = obs_full(&self.reps[i].m)?;
            if pre.core != post.core {
                return viol("C12", format!("refresh with nothing new in storage changed the state: {}", first_diff(&pre.core, &post.core)));
            }
            self.bump("c12_noop_refresh_checked");
        }
        if self.is("C02") {
            let pend = self.pending(i);
            if !pend.is_empty() {
                return viol("C02", format!("after refresh, causally complete blocks are still not applied: {:?}", pend));
            }
            self.live_equals_fresh(i, "C02", "after refresh (incremental refresh vs full reload)")?;
            self.check_applied_is_closure(i, "C02")?;
            self.bump("c02_refresh_checked");
        }
        if self.is("C06") {
            inv::check_c06(self, i)?;
        }
        self.record_heads(i)?;
        self.set_quiescent(i)?;
        Ok(())
    }

    /// hook status vs reference closure
    pub fn check_applied_is_closure(&mut self, i: usize, prop: &'static str) -> R<()> {
        let clo = self.closure_of(i);
        let st = self.reps[i].m.verif_block_status();
        let live: BTreeSet<String> = st.iter().filter(|(_, s)| **s == "applied").map(|(k, _)| k.clone()).collect();
        let want: BTreeSet<String> = clo.applied.keys().cloned().collect();
        if live != want {
            return viol(prop, format!("applied blocks {:?} differ from the intact causally complete blocks {:?} (held back by reference: {:?})", live, want, clo.held));
        }
        if st.values().any(|s| *s == "ready" || *s == "pending") {
            return viol(prop, format!("blocks left in an intermediate load state: {:?}", st));
        }
        if !clo.held.is_empty() {
            self.bump("states_with_held_back_blocks");
        }
        Ok(())
    }

    // ------------------------------------------------------------------ reload / reopen
    pub fn op_reload(&mut self, i: usize) -> R<()> {
        let staged = guard("has_staging", || self.reps[i].m.has_staging())?;
        let pre = obs_full(&self.reps[i].m)?;
        let was_pending = self.pending(i);
        let was_traveled = self.reps[i].traveled;
        let res = guard("reload", || self.reps[i].m.reload())?;
        self.log.push(format!("r{} reload -> {:?}", i, res.as_ref().map_err(|e| e.to_string())));
        if staged {
            if self.is("C15") {
                if res.is_ok() {
                    return viol("C15", "reload ran although changes were staged".into());
                }
                let post = obs_full(&self.reps[i].m)?;
                if pre != post {
                    return viol("C15", format!("refused reload changed the state: {}", first_diff_full(&pre, &post)));
                }
                self.bump("c15_refused_reload");
            }
            return Ok(());
        }
        if let Err(e) = res {
            self.bump("reload_err");
            // a refused reload must leave the replica as it was (C15: never silently drop)
            let post = obs_full(&self.reps[i].m)?;
            if (self.is("C15") || self.is("C12")) && pre != post {
                let p = if self.is("C15") { "C15" } else { "C12" };
                return viol(p, format!("reload failed ({}) and left the replica changed: {}", e, first_diff_full(&pre, &post)));
            }
            return Ok(());
        }
        self.reps[i].traveled = false;
        if self.is("C12") && was_pending.is_empty() && !was_traveled {
            let post = obs_full(&self.reps[i].m)?;
            if pre.core != post.core {
                return viol("C12", format!("reload with nothing new in storage changed the state: {}", first_diff(&pre.core, &post.core)));
            }
            self.bump("c12_noop_reload_checked");
        }
        if self.is("C02") {
            self.check_applied_is_closure(i, "C02")?;
        }
        self.record_heads(i)?;
        self.set_quiescent(i)?;
        Ok(())
    }

    pub fn op_reopen(&mut self, i: usize) -> R<()> {
        let m = match self.fresh(i)? {
            Ok(m) => m,
            Err(e) => {
                self.log.push(format!("r{} reopen -> Err {}", i, e));
                self.bump("reopen_err");
                return Ok(());
            }
        };
        self.log.push(format!("r{} reopen", i));
        self.reps[i].m = m;
        self.reps[i].traveled = false;
        self.bump("reopens");
        self.record_heads(i)?;
        self.set_quiescent(i)?;
        Ok(())
    }

    // ------------------------------------------------------------------ raw file copy
    pub fn op_filecopy(&mut self, i: usize, j: usize, count: u16, perm: u64, refresh_each: bool) -> R<()> {
        if i == j {
            return Ok(());
        }
        let mine = self.reps[i].store.keys();
        let mut items: Vec<String> = self.reps[j].store.order().into_iter().filter(|k| !mine.contains(k)).collect();
        crate::store::permute(&mut items, perm);
        let take = gen::sel(count, items.len() + 1);
        self.log.push(format!("r{} filecopy {}/{} from r{} refresh_each={}", i, take, items.len(), j, refresh_each));
        if take > 0 {
            self.bump("filecopies");
            if take < items.len() {
                self.bump("partial_filecopies");
            }
        }
        let staged = guard("has_staging", || self.reps[i].m.has_staging())?;
        for it in items.iter().take(take) {
            let bytes = self.reps[j].store.get(it).unwrap();
            if self.reps[i].store.put_raw(it, &bytes) && self.torn.contains(&(j, it.clone())) {
                // a raw file copy passes a half-written file on as it is
                self.torn.insert((i, it.clone()));
            }
            if refresh_each && !staged {
                self.log.push(format!("   copied {}", it));
                self.op_refresh(i)?;
            }
        }
        Ok(())
    }
}

/// (element id, array descriptor id) pairs of a document
fn arr_membership(doc: &Value) -> BTreeSet<(String, String)> {
    let mut arrs = vec![];
    model::doc_arrays(doc, &mut vec![], &mut arrs);
    let mut s = BTreeSet::new();
    for (a, ids) in arrs {
        for id in ids {
            s.insert((id, a.clone()));
        }
    }
    s
}

/// kinds of the flattened keys of all tracked objects (for kind-change classification)
fn kinds(doc: &Value) -> Vec<(String, Value)> {
    let mut tr = vec![];
    model::collect_tracked(doc, &mut vec![], &mut tr);
    tr.into_iter()
        .map(|(id, own)| {
            let mut m = Map::new();
            if let Some(o) = own.as_object() {
                for (k, v) in o {
                    if k.ends_with(model::FLAT) {
                        let kind = match v.as_str() {
                            Some("<array>") => "array",
                            Some("<object>") => "object",
                            _ => "scalar",
                        };
                        m.insert(k.clone(), Value::from(kind));
                    }
                }
            }
            (id, Value::from(m))
        })
        .collect()
}
