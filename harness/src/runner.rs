//! Generic proptest driver used by every worker part, and the worker result format.
use crate::world::{Counters, Fail};
use proptest::strategy::Strategy;
use proptest::test_runner::{Config, RngSeed, TestCaseError, TestError, TestRunner};
use serde::{Deserialize, Serialize};
use serde_json::Value;
use std::cell::RefCell;
use std::collections::{BTreeMap, BTreeSet};

#[derive(Clone, Debug, Default, Serialize, Deserialize)]
pub struct Violation {
    pub prop: String,
    pub msg: String,
    pub case: Value,
    pub log: Vec<String>,
    pub part: String,
    pub seed: u64,
    #[serde(default)]
    pub kind: String,
}

#[derive(Clone, Debug, Default, Serialize, Deserialize)]
pub struct WorkerResult {
    pub part: String,
    pub evaluations: u64,
    pub aborted: u64,
    pub steps: u64,
    pub nontrivial_hashes: BTreeSet<String>,
    /// non-trivial cases counted directly (exhaustive enumerations: cases are distinct by construction)
    #[serde(default)]
    pub nontrivial_count: u64,
    /// sum of counters over all cases
    pub counters: BTreeMap<String, u64>,
    /// number of cases in which each counter was > 0
    pub cases_with: BTreeMap<String, u64>,
    pub samples: Vec<Value>,
    pub violation: Option<Violation>,
    pub exhaustive: bool,
    pub notes: Vec<String>,
}

impl WorkerResult {
    pub fn merge(&mut self, o: WorkerResult) {
        self.evaluations += o.evaluations;
        self.aborted += o.aborted;
        self.steps += o.steps;
        self.nontrivial_hashes.extend(o.nontrivial_hashes);
        self.nontrivial_count += o.nontrivial_count;
        self.exhaustive = self.exhaustive || o.exhaustive;
        for (k, v) in o.counters {
            *self.counters.entry(k).or_insert(0) += v;
        }
        for (k, v) in o.cases_with {
            *self.cases_with.entry(k).or_insert(0) += v;
        }
        for s in o.samples {
            if self.samples.len() < 4 {
                self.samples.push(s);
            }
        }
        if self.violation.is_none() {
            self.violation = o.violation;
        }
        self.notes.extend(o.notes);
    }
}

pub struct CaseRes {
    pub counters: Counters,
    pub nontrivial: bool,
    pub result: Result<(), Fail>,
    pub log: Vec<String>,
    pub steps: usize,
}

pub fn case_hash<C: Serialize>(c: &C) -> String {
    let s = serde_json::to_vec(c).unwrap_or_default();
    crate::model::sha_hex(&s)[..16].to_string()
}

/// Current case (serialised) for the watchdog
pub static CURRENT_CASE: std::sync::Mutex<String> = std::sync::Mutex::new(String::new());

pub fn drive<C, S, F>(part: &str, prop: &str, strategy: S, cases: u32, seed: u64, f: F) -> WorkerResult
where
    C: std::fmt::Debug + Clone + Serialize,
    S: Strategy<Value = C>,
    F: Fn(&C) -> CaseRes,
{
    let res = RefCell::new(WorkerResult { part: part.to_string(), ..Default::default() });
    let failed = RefCell::new(false);
    let cfg = Config {
        cases,
        failure_persistence: None,
        rng_seed: RngSeed::Fixed(seed),
        max_shrink_iters: std::env::var("VERIF_MAX_SHRINK").ok().and_then(|x| x.parse().ok()).unwrap_or(4000),
        max_global_rejects: 1 << 30,
        // shrinking is bounded in work and in time (it only makes the replay smaller, it decides nothing)
        max_shrink_time: std::env::var("VERIF_MAX_SHRINK_MS").ok().and_then(|x| x.parse().ok()).unwrap_or(90_000),
        ..Config::default()
    };
    let mut runner = TestRunner::new(cfg);
    let classify = |r: &CaseRes| -> Option<(String, String, String)> {
        match &r.result {
            Ok(()) => None,
            Err(Fail::Violation { prop: p, msg }) => Some((p.to_string(), msg.clone(), "oracle".into())),
            Err(Fail::Panic { op, msg }) => {
                if prop == "C08" {
                    Some(("C08".into(), format!("operation {} aborted the calling thread: {}", op, msg), "panic".into()))
                } else {
                    None
                }
            }
        }
    };
    let out = runner.run(&strategy, |case| {
        if let Ok(mut c) = CURRENT_CASE.lock() {
            *c = serde_json::to_string(&case).unwrap_or_default();
        }
        let r = f(&case);
        let fail = classify(&r);
        if !*failed.borrow() {
            let mut w = res.borrow_mut();
            if matches!(r.result, Err(Fail::Panic { .. })) && fail.is_none() {
                w.aborted += 1;
                if w.notes.len() < 3 {
                    w.notes.push(format!("aborted case (panic outside this property's oracle): {:?}", r.result));
                }
            } else {
                w.evaluations += 1;
                w.steps += r.steps as u64;
                for (k, v) in &r.counters {
                    *w.counters.entry(k.to_string()).or_insert(0) += v;
                    if *v > 0 {
                        *w.cases_with.entry(k.to_string()).or_insert(0) += 1;
                    }
                }
                if r.nontrivial && fail.is_none() {
                    let h = case_hash(&case);
                    if w.nontrivial_hashes.insert(h) && w.samples.len() < 2 {
                        w.samples.push(serde_json::to_value(&case).unwrap_or(Value::Null));
                    }
                }
            }
        }
        match fail {
            Some((p, m, _)) => {
                *failed.borrow_mut() = true;
                Err(TestCaseError::fail(format!("{}: {}", p, m)))
            }
            None => Ok(()),
        }
    });
    let mut w = res.into_inner();
    if let Err(e) = out {
        match e {
            TestError::Fail(_, minimal) => {
                // re-run the minimal case to obtain message and log
                let mut last = None;
                for _ in 0..20 {
                    let r = f(&minimal);
                    if let Some(x) = classify(&r) {
                        last = Some((x, r.log));
                        break;
                    }
                }
                let ((p, m, kind), log) = last.unwrap_or_else(|| {
                    ((prop.to_string(), "failure observed during search did not reproduce on re-run of the shrunk case".to_string(), "flaky".to_string()), vec![])
                });
                w.violation = Some(Violation {
                    prop: p,
                    msg: m,
                    case: serde_json::to_value(&minimal).unwrap_or(Value::Null),
                    log,
                    part: part.to_string(),
                    seed,
                    kind,
                });
            }
            TestError::Abort(r) => w.notes.push(format!("proptest aborted: {}", r)),
        }
    }
    w
}

/// Replay one serialised case (strict mode: up to `tries` executions, any failure counts)
pub fn replay<C, F>(prop: &str, case: &C, tries: usize, f: F) -> Option<(String, String, Vec<String>)>
where
    F: Fn(&C) -> CaseRes,
{
    for _ in 0..tries {
        let r = f(case);
        match r.result {
            Ok(()) => {}
            Err(Fail::Violation { prop: p, msg }) => return Some((p.to_string(), msg, r.log)),
            Err(Fail::Panic { op, msg }) => {
                if prop == "C08" {
                    return Some(("C08".into(), format!("operation {} aborted the calling thread: {}", op, msg), r.log));
                }
            }
        }
    }
    None
}
