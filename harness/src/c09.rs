//! C09: commit and meld are atomic w.r.t. crashes (every write boundary) and write failures
//! (every single and repeated failure), enumerated over generated histories.
use crate::gen::{self, info_map, Mix, Op};
use crate::model;
use crate::props::Case;
use crate::runner::CaseRes;
use crate::store::{HStore, Snap};
use crate::world::*;
use proptest::prelude::*;
use serde::{Deserialize, Serialize};
use std::collections::BTreeSet;

#[derive(Clone, Debug, Serialize, Deserialize)]
pub struct C09Case {
    pub hist: Case,
    /// which fault re-runs to perform when there are more candidates than the budget
    pub pick: u64,
}

pub fn strategy(thorough: bool) -> BoxedStrategy<C09Case> {
    // no raw partial file copies: which files a copy picks depends on block identifiers, which differ between
    // the fault-free run and the re-runs that are compared with it
    let mix = Mix { update: 10, commit: 8, meldrefresh: 6, meld: 3, filecopy: 0, resolve: 2, reopen: 1, timetravel: 0, unstage: 1, stagert: 0, snapshot: 1, refresh: 1, reload: 0, ..Mix::default() };
    let len = if thorough { 40 } else { 24 };
    (2u8..=3, gen::history(&mix, len), any::<u64>())
        .prop_map(|(n, ops, pick)| C09Case { hist: Case { n, perms: vec![None; 3], ops, fin: None }, pick })
        .boxed()
}

fn fresh_on(s: &Snap) -> R<Result<melda::melda::Melda, String>> {
    open(HStore::from_snap(s).ad())
}

/// a fresh replica on `snap` shows exactly the state derived from the intact, causally complete items
fn closure_equiv(snap: &Snap, what: &str) -> R<(Obs, BTreeSet<String>)> {
    let m = match fresh_on(snap)? {
        Ok(m) => m,
        Err(e) => return viol("C09", format!("{}: a replica cannot be opened on the storage as it is at this point: {}", what, e)),
    };
    let clo = model::closure(snap);
    let want: BTreeSet<String> = clo.applied.keys().cloned().collect();
    let got = applied_hook(&m);
    if got != want {
        return viol("C09", format!("{}: applied blocks {:?}, causally complete blocks {:?}", what, got, want));
    }
    let clean = match fresh_on(&clo.items(snap))? {
        Ok(m) => m,
        Err(e) => return viol("C09", format!("{}: cannot open closure: {}", what, e)),
    };
    let a = obs(&m)?;
    let b = obs(&clean)?;
    if a != b {
        return viol("C09", format!("{}: state is a mixture (differs from the state of the complete items only): {}", what, first_diff(&a, &b)));
    }
    Ok((a, want))
}

/// a new, empty replica melds from replica i (refreshed first, so that it publishes all it holds),
/// is reopened, and must show `want`
fn peer_receives(w: &mut World, i: usize, want: &Obs, what: &str) -> R<()> {
    if guard("has_staging", || w.reps[i].m.has_staging())? || w.reps[i].traveled {
        return Ok(());
    }
    let _ = guard("refresh", || w.reps[i].m.refresh())?;
    let store = HStore::new();
    let c = match open(store.ad())? {
        Ok(c) => c,
        Err(e) => return viol("C09", format!("cannot open an empty replica: {}", e)),
    };
    let _ = guard("meld", || c.meld(&w.reps[i].m))?;
    let fresh = match open(store.ad()) {
        Ok(Ok(f)) => f,
        Ok(Err(e)) => return viol("C09", format!("{}: a peer that melded the result cannot be opened: {}", what, e)),
        Err(Fail::Panic { op, msg }) => return viol("C09", format!("{}: opening a peer that melded the result aborts in {}: {}", what, op, msg)),
        Err(f) => return Err(f),
    };
    match obs(&fresh) {
        Ok(o) => {
            if &o != want {
                return viol("C09", format!("{}: a peer that melded the result does not see the same durable state: {}", what, first_diff(&o, want)));
            }
        }
        Err(Fail::Panic { op, msg }) => return viol("C09", format!("{}: a peer that melded the result shows a mixture ({} aborts: {})", what, op, msg)),
        Err(f) => return Err(f),
    }
    Ok(())
}

struct Twin {
    op_index: usize,
    writes: usize,
    after: Obs,
    is_commit: bool,
}

/// fault-free pass with crash-boundary enumeration; returns the twin observations
fn pass1(case: &C09Case, cnt: &mut Counters, log: &mut Vec<String>, steps: &mut usize) -> R<Vec<Twin>> {
    let mut w = World::new(case.hist.n as usize, &case.hist.perms, &[])?;
    let mut twins = vec![];
    let r = (|| -> R<()> {
        for (t, op) in case.hist.ops.iter().enumerate() {
            *steps += 1;
            match op {
                Op::Commit { r, info } => {
                    let i = w.rix(*r);
                    let s0 = w.reps[i].store.snap();
                    let staged = guard("has_staging", || w.reps[i].m.has_staging())?;
                    w.reps[i].store.with(|s| {
                        s.boundaries = Some(vec![]);
                        s.log.clear();
                    });
                    let w0 = w.reps[i].store.with(|s| s.writes);
                    w.op_commit(i, info_map(info))?;
                    let bounds = w.reps[i].store.with(|s| s.boundaries.take()).unwrap_or_default();
                    let wlog = w.reps[i].store.with(|s| s.log.clone());
                    let fin = w.reps[i].store.snap();
                    let nw = w.reps[i].store.with(|s| s.writes) - w0;
                    if !staged {
                        continue;
                    }
                    // order of writes: a block must never be written before a pack it names
                    let new_block = fin.keys().find(|k| k.ends_with(".delta") && !s0.contains_key(*k)).cloned();
                    let (before, base_applied) = closure_equiv(&s0, "before commit")?;
                    let mut all = bounds.clone();
                    all.push(fin.clone());
                    let mut seen_after = false;
                    for (k, b) in all.iter().enumerate() {
                        let (o, applied) = closure_equiv(b, &format!("crash at write boundary {} of commit (op {})", k, t))?;
                        *cnt.entry("commit_crash_boundaries").or_insert(0) += 1;
                        if let Some(nb) = &new_block {
                            let stem = nb.trim_end_matches(".delta").to_string();
                            let present = b.contains_key(nb);
                            if present && !applied.contains(&stem) {
                                let blk = model::parse_block(&stem, &b[nb]);
                                return viol("C09", format!("crash at boundary {} of commit: block {} is in storage but not complete (its packs {:?} present: {:?})", k, nb, blk.as_ref().map(|x| x.packs.clone()), blk.as_ref().map(|x| x.packs.iter().map(|p| b.contains_key(&format!("{}.pack", p))).collect::<Vec<_>>())));
                            }
                            let others: BTreeSet<String> = applied.iter().filter(|x| **x != stem).cloned().collect();
                            if !present {
                                if seen_after {
                                    return viol("C09", "commit boundaries not monotone".into());
                                }
                                if others == base_applied && o != before {
                                    return viol("C09", format!("crash at boundary {} of commit (block not yet written): state differs from the previous state: {}", k, first_diff(&o, &before)));
                                }
                                if others != base_applied {
                                    *cnt.entry("commit_pack_completed_a_held_back_block").or_insert(0) += 1;
                                }
                            } else {
                                seen_after = true;
                            }
                        } else if o != before {
                            return viol("C09", format!("crash at boundary {} of a commit that wrote no new block changed the state", k));
                        }
                    }
                    if wlog.iter().filter(|x| x.2).count() >= 2 {
                        *cnt.entry("commits_writing_pack_and_block").or_insert(0) += 1;
                    }
                    let after = obs(&fresh_on(&fin)?.map_err(|e| Fail::Violation { prop: "C09", msg: e })?)?;
                    if closure_equiv(&fin, "after commit")?.1.len() == model::closure(&fin).applied.len() && w.pending(i).is_empty() {
                        peer_receives(&mut w, i, &after, "after an uninterrupted commit")?;
                    }
                    twins.push(Twin { op_index: t, writes: nw, after, is_commit: true });
                }
                Op::Meld { r, from } | Op::MeldRefresh { r, from } => {
                    let i = w.rix(*r);
                    let j = w.peer(i, *from);
                    w.reps[i].store.with(|s| s.boundaries = Some(vec![]));
                    let w0 = w.reps[i].store.with(|s| s.writes);
                    w.op_meld(i, j)?;
                    let bounds = w.reps[i].store.with(|s| s.boundaries.take()).unwrap_or_default();
                    let fin = w.reps[i].store.snap();
                    let nw = w.reps[i].store.with(|s| s.writes) - w0;
                    let mut all = bounds;
                    all.push(fin.clone());
                    if all.len() >= 4 {
                        *cnt.entry("melds_copying_3_items").or_insert(0) += 1;
                    }
                    for (k, b) in all.iter().enumerate() {
                        closure_equiv(b, &format!("crash at write boundary {} of meld (op {})", k, t))?;
                        *cnt.entry("meld_crash_boundaries").or_insert(0) += 1;
                    }
                    if matches!(op, Op::MeldRefresh { .. }) {
                        w.op_refresh(i)?;
                    }
                    let after = obs(&fresh_on(&fin)?.map_err(|e| Fail::Violation { prop: "C09", msg: e })?)?;
                    twins.push(Twin { op_index: t, writes: nw, after, is_commit: false });
                }
                _ => w.step(op)?,
            }
        }
        Ok(())
    })();
    log.extend(std::mem::take(&mut w.log));
    for (k, v) in &w.cnt {
        *cnt.entry(k).or_insert(0) += v;
    }
    r.map(|_| twins)
}

/// re-run the prefix, inject write failure(s) into op t, check the failure oracle
fn fault_run(case: &C09Case, tw: &Twin, k: usize, repeated: bool, cnt: &mut Counters, log: &mut Vec<String>) -> R<()> {
    let mut w = World::new(case.hist.n as usize, &case.hist.perms, &[])?;
    let r = (|| -> R<()> {
        for op in &case.hist.ops[..tw.op_index] {
            w.step(op)?;
        }
        match &case.hist.ops[tw.op_index] {
            Op::Commit { r, info } => {
                let i = w.rix(*r);
                if !guard("has_staging", || w.reps[i].m.has_staging())? {
                    return Ok(());
                }
                let pre = obs(&w.reps[i].m)?;
                let s0 = w.reps[i].store.snap();
                let w0 = w.reps[i].store.with(|s| {
                    let w0 = s.writes;
                    s.fail_at.insert(w0 + k);
                    w0
                });
                let inf = info_map(info);
                let res = guard("commit", || w.reps[i].m.commit(inf.clone()))?;
                let failed = w.reps[i].store.with(|s| s.log.iter().any(|x| x.0 == w0 + k) && s.writes > w0 + k);
                w.log.push(format!("r{} commit with write #{} failing -> {:?}", i, k, res.as_ref().map(|x| x.is_some()).map_err(|e| e.to_string())));
                if !failed {
                    *cnt.entry("fault_not_reached").or_insert(0) += 1;
                    return Ok(());
                }
                *cnt.entry("commit_write_failures_injected").or_insert(0) += 1;
                if res.is_ok() {
                    return viol("C09", format!("a storage write failed during commit (write #{}) but commit reported success", k));
                }
                if !guard("has_staging", || w.reps[i].m.has_staging())? {
                    return viol("C09", "after a failed commit the staged changes are gone (has_staging() false)".into());
                }
                let post = match obs(&w.reps[i].m) {
                    Err(Fail::Panic { op, msg }) => return viol("C09", format!("after a failed commit (write #{} rejected) the staged state can no longer be read: {} aborts: {}", k, op, msg)),
                    x => x?,
                };
                // every staged value must still be retrievable
                for o in &post.objects {
                    let wv = post.winners.get(o).cloned().unwrap_or_default();
                    if wv.starts_with("ERR") {
                        continue;
                    }
                    match guard("get_value", || w.reps[i].m.get_value(o, Some(&wv))) {
                        Ok(Ok(_)) => {}
                        Ok(Err(e)) => return viol("C09", format!("after a failed commit (write #{} rejected) the value of {:?} at {} is no longer retrievable: {}", k, o, wv, e)),
                        Err(Fail::Panic { op, msg }) => return viol("C09", format!("after a failed commit {} aborts: {}", op, msg)),
                        Err(f) => return Err(f),
                    }
                }
                if post.doc != pre.doc || post.objects != pre.objects {
                    return viol("C09", format!("a failed commit changed the visible state: {}", first_diff(&pre, &post)));
                }
                // whatever reached storage must not be a mixture
                closure_equiv(&w.reps[i].store.snap(), "storage after a failed commit")?;
                let _ = s0;
                // what an error handler might try before retrying: resynchronising with storage. With
                // changes staged these calls must be refused (or at least must not lose them): the staged
                // changes are still present afterwards
                if (k + i) % 2 == 0 {
                    let which = (k / 2 + i) % 3;
                    let r = match which {
                        0 => guard("reload", || w.reps[i].m.reload())?.map_err(|e| e.to_string()),
                        1 => guard("refresh", || w.reps[i].m.refresh())?.map_err(|e| e.to_string()),
                        _ => {
                            let anchors = guard("get_anchors", || w.reps[i].m.get_anchors())?;
                            guard("reload_until", || w.reps[i].m.reload_until(&anchors))?.map_err(|e| e.to_string())
                        }
                    };
                    let name = ["reload", "refresh", "reload_until(current heads)"][which];
                    w.log.push(format!("r{} {} between the failed commit and its retry -> {:?}", i, name, r));
                    let staged_now = guard("has_staging", || w.reps[i].m.has_staging())?;
                    let after = obs(&w.reps[i].m)?;
                    if !staged_now || after.doc != post.doc || after.objects != post.objects || after.winners != post.winners {
                        return viol("C09", format!("{} called after a failed commit ({:?}) lost the staged changes (has_staging={}): {}", name, r, staged_now, first_diff(&post, &after)));
                    }
                    *cnt.entry("resync_attempts_between_failure_and_retry").or_insert(0) += 1;
                }
                if repeated {
                    let w1 = w.reps[i].store.with(|s| {
                        let w1 = s.writes;
                        s.fail_at.insert(w1);
                        w1
                    });
                    let res2 = guard("commit", || w.reps[i].m.commit(inf.clone()))?;
                    let _ = w1;
                    if res2.is_ok() && w.reps[i].store.with(|s| s.log.iter().any(|x| !x.2 && x.0 == w1)) {
                        // the failing write may have been a write-once no-op; only a real failure must be reported
                    }
                    if !guard("has_staging", || w.reps[i].m.has_staging())? && res2.is_err() {
                        return viol("C09", "after a second failed commit the staged changes are gone".into());
                    }
                    *cnt.entry("repeated_failures_injected").or_insert(0) += 1;
                }
                w.reps[i].store.with(|s| s.fail_at.clear());
                let staged = guard("has_staging", || w.reps[i].m.has_staging())?;
                let res3 = guard("commit", || w.reps[i].m.commit(inf.clone()))?;
                match res3 {
                    Ok(Some(_)) => {}
                    Ok(None) if !staged => {}
                    other => return viol("C09", format!("retry of a failed commit did not succeed: {:?}", other.map(|x| x.is_some()).map_err(|e| e.to_string()))),
                }
                let fresh = match w.fresh(i)? {
                    Ok(m) => m,
                    Err(e) => return viol("C09", format!("cannot reopen after failed commit + retry: {}", e)),
                };
                let o = obs(&fresh)?;
                if o != tw.after {
                    return viol("C09", format!("failed commit + retry is not durable like an uninterrupted commit: {}", first_diff(&o, &tw.after)));
                }
                let live = obs(&w.reps[i].m)?;
                if live.doc != pre.doc {
                    return viol("C09", "retry of a failed commit changed the document".into());
                }
                // the durable result includes what a peer receives: a fresh replica melding from this one
                // must arrive at the twin's state as well
                peer_receives(&mut w, i, &tw.after, "after a failed commit and its retry")?;
                *cnt.entry("commit_retries_checked").or_insert(0) += 1;
            }
            Op::Meld { r, from } | Op::MeldRefresh { r, from } => {
                let i = w.rix(*r);
                let j = w.peer(i, *from);
                w.reps[i].store.with(|s| {
                    let w0 = s.writes;
                    s.fail_at.insert(w0 + k);
                    if repeated {
                        s.fail_at.insert(w0 + k + 1);
                    }
                });
                w.op_meld(i, j)?;
                *cnt.entry("meld_write_failures_injected").or_insert(0) += 1;
                closure_equiv(&w.reps[i].store.snap(), "storage after a meld with a failing write")?;
                w.reps[i].store.with(|s| s.fail_at.clear());
                // a later fault-free meld reaches the twin's storage state
                w.op_meld(i, j)?;
                let fresh = match w.fresh(i)? {
                    Ok(m) => m,
                    Err(e) => return viol("C09", format!("cannot reopen after meld under failures: {}", e)),
                };
                let o = obs(&fresh)?;
                if o != tw.after {
                    return viol("C09", format!("meld with a failed write followed by a fault-free meld differs from an uninterrupted meld: {}", first_diff(&o, &tw.after)));
                }
                *cnt.entry("meld_retries_checked").or_insert(0) += 1;
            }
            _ => {}
        }
        Ok(())
    })();
    if r.is_err() {
        log.push(format!("-- fault re-run: op {} write {} repeated={}", tw.op_index, k, repeated));
        log.extend(std::mem::take(&mut w.log));
    }
    r
}

pub fn run(case: &C09Case, thorough: bool) -> CaseRes {
    let mut cnt = Counters::new();
    let mut log = vec![];
    let mut steps = 0;
    let twins = match pass1(case, &mut cnt, &mut log, &mut steps) {
        Ok(t) => t,
        Err(f) => return CaseRes { counters: cnt, nontrivial: false, result: Err(f), log, steps },
    };
    // fault enumeration: every (op, write index) x {single, repeated}; bounded per case
    let mut cands: Vec<(usize, usize, bool)> = vec![];
    for (ti, t) in twins.iter().enumerate() {
        for k in 0..t.writes {
            cands.push((ti, k, false));
            if t.is_commit || t.writes > k + 1 {
                cands.push((ti, k, true));
            }
        }
    }
    let budget = if thorough { 48 } else { 16 };
    if cands.len() > budget {
        crate::store::permute(&mut cands, case.pick);
        cands.truncate(budget);
        *cnt.entry("fault_candidates_truncated").or_insert(0) += 1;
    }
    let mut res = Ok(());
    for (ti, k, rep) in cands {
        steps += twins[ti].op_index;
        if let Err(f) = fault_run(case, &twins[ti], k, rep, &mut cnt, &mut log) {
            res = Err(f);
            break;
        }
    }
    let c = |k: &str| cnt.get(k).cloned().unwrap_or(0);
    let nontrivial = c("commits_writing_pack_and_block") > 0 && c("commit_write_failures_injected") > 0 && (c("melds_copying_3_items") > 0 || c("meld_write_failures_injected") > 0);
    CaseRes { counters: cnt, nontrivial, result: res, log, steps }
}
