//! C07 "dual" part: two replicas with the same conflicted state resolve the same conflict
//! independently (possibly in favour of different leaves), commit and exchange: they must converge,
//! and a resolution received from the peer must leave the object out of the conflict set when both
//! chose the same leaf.
use crate::gen::{self, Mix};
use crate::model;
use crate::ops2::FinPlan;
use crate::props::Case;
use crate::runner::CaseRes;
use crate::world::*;
use proptest::prelude::*;
use serde::{Deserialize, Serialize};

#[derive(Clone, Debug, Serialize, Deserialize)]
pub struct DualCase {
    pub hist: Case,
    pub obj: u16,
    pub leaf_a: u16,
    pub leaf_b: u16,
    pub same: bool,
}

pub fn strategy() -> BoxedStrategy<DualCase> {
    let mix = Mix { update: 10, commit: 7, meldrefresh: 8, resolve: 1, filecopy: 0, timetravel: 0, unstage: 0, stagert: 0, ..Mix::default() };
    (gen::history(&mix, 30), any::<u16>(), any::<u16>(), any::<u16>(), prop::bool::weighted(0.3))
        .prop_map(|(ops, obj, leaf_a, leaf_b, same)| DualCase {
            hist: Case { n: 2, perms: vec![None; 2], ops, fin: Some(FinPlan { commit: vec![true; 2], deliveries: vec![], final_mode: vec![0; 2] }) },
            obj,
            leaf_a,
            leaf_b,
            same,
        })
        .boxed()
}

pub fn run(case: &DualCase) -> CaseRes {
    let mut w = match World::new(2, &case.hist.perms, &["C07", "C01"]) {
        Ok(w) => w,
        Err(f) => return CaseRes { counters: Counters::new(), nontrivial: false, result: Err(f), log: vec![], steps: 0 },
    };
    let mut steps = 0;
    let mut nontrivial = false;
    let res = (|| -> R<()> {
        for op in &case.hist.ops {
            steps += 1;
            w.step(op)?;
        }
        let fin = case.hist.fin.as_ref().unwrap();
        w.converge(fin)?;
        let base = obs(&w.reps[0].m)?;
        if base.in_conflict.is_empty() {
            return Ok(());
        }
        let conflicted: Vec<String> = base.in_conflict.iter().cloned().collect();
        let u = conflicted[gen::sel(case.obj, conflicted.len())].clone();
        let mut leaves: Vec<String> = base.conflicts.get(&u).cloned().unwrap_or_default().into_iter().collect();
        leaves.push(base.winners[&u].clone());
        leaves.sort_by(|a, b| model::ref_cmp(a, b));
        let la = leaves[gen::sel(case.leaf_a, leaves.len())].clone();
        let lb = if case.same { la.clone() } else { leaves[gen::sel(case.leaf_b, leaves.len())].clone() };
        w.log.push(format!("-- dual resolution of {:?}: r0 chooses {}, r1 chooses {}", u, la, lb));
        let ra = guard("resolve_as", || w.reps[0].m.resolve_as(&u, &la))?;
        let rb = guard("resolve_as", || w.reps[1].m.resolve_as(&u, &lb))?;
        if let Err(e) = ra.as_ref().and(rb.as_ref()) {
            return viol("C07", format!("resolving {:?} in favour of a live leaf failed: {}", u, e));
        }
        w.op_commit(0, None)?;
        w.op_commit(1, None)?;
        w.converge(fin)?; // C01 oracle: both converge
        let after = obs(&w.reps[0].m)?;
        if la == lb {
            if after.in_conflict.contains(&u) {
                return viol("C07", format!("both replicas resolved {:?} in favour of {} but after the exchange it is in conflict again: {:?}", u, la, after.conflicts.get(&u)));
            }
            w.bump("c07_dual_same_leaf");
        } else {
            w.bump("c07_dual_different_leaves");
        }
        nontrivial = true;
        Ok(())
    })();
    CaseRes { counters: std::mem::take(&mut w.cnt), nontrivial, result: res, log: std::mem::take(&mut w.log), steps }
}
