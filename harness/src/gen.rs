//! Generators (proptest strategies) and the abstract document-edit language.
//! Every random choice of a case is made here; the interpreter is a pure function of the case.
use proptest::collection::vec;
use proptest::prelude::*;
use serde::{Deserialize, Serialize};
use serde_json::{Map, Value};
use std::collections::BTreeMap;

// ---------------------------------------------------------------- JSON values

/// Own JSON value type: floats are kept as bit patterns so that replay files are exact.
#[derive(Clone, Debug, PartialEq, Serialize, Deserialize)]
pub enum J {
    N,
    B(bool),
    I(i64),
    U(u64),
    F(u64),
    S(String),
    A(Vec<J>),
    O(Vec<(String, J)>),
}

impl J {
    pub fn to_value(&self) -> Value {
        match self {
            J::N => Value::Null,
            J::B(b) => Value::from(*b),
            J::I(i) => Value::from(*i),
            J::U(u) => Value::from(*u),
            J::F(bits) => {
                let f = f64::from_bits(*bits);
                if f.is_finite() {
                    Value::from(f)
                } else {
                    Value::from(0.5)
                }
            }
            J::S(s) => Value::from(s.clone()),
            J::A(a) => Value::from(a.iter().map(|x| x.to_value()).collect::<Vec<_>>()),
            J::O(o) => {
                let mut m = Map::new();
                for (k, v) in o {
                    m.insert(k.clone(), v.to_value());
                }
                Value::from(m)
            }
        }
    }
    /// classification used by non-triviality rules
    pub fn has_tricky_string(&self) -> bool {
        match self {
            J::S(s) => s.contains(['{', '}', '"', '\\', '[', ']']),
            J::A(a) => a.iter().any(|x| x.has_tricky_string()),
            J::O(o) => o.iter().any(|(k, v)| k.contains(['{', '}', '"', '\\']) || v.has_tricky_string()),
            _ => false,
        }
    }
    pub fn has_long_float(&self) -> bool {
        match self {
            J::F(b) => {
                let f = f64::from_bits(*b);
                f.is_finite() && format!("{:e}", f).len() > 17
            }
            J::A(a) => a.iter().any(|x| x.has_long_float()),
            J::O(o) => o.iter().any(|(_, v)| v.has_long_float()),
            _ => false,
        }
    }
}

fn tricky_char() -> impl Strategy<Value = char> {
    prop_oneof![
        6 => (0x20u8..0x7f).prop_map(|c| c as char),
        5 => prop::sample::select(vec!['{', '}', '[', ']', '"', '\\', ',', ':']),
        2 => prop::sample::select(vec!['\u{1}', '\n', '\t', '\u{7f}', '\u{0}']),
        2 => prop::sample::select(vec!['é', 'ß', '√', '♭', '\u{fffd}', '\u{2028}', '漢']),
        1 => prop::sample::select(vec!['😀', '\u{10ffff}', '𝄞']),
        2 => prop::sample::select(vec!['!', '^', '@', '#', '_', '-', '.']),
    ]
}

pub fn jstring() -> impl Strategy<Value = String> {
    prop_oneof![
        4 => vec(tricky_char(), 0..8).prop_map(|v| v.into_iter().collect::<String>()),
        1 => prop::sample::select(vec![
            "a}b{\"c\\".to_string(), "!bang".to_string(), "^caret".to_string(), "}".to_string(),
            "{".to_string(), "\\\"".to_string(), "\\".to_string(), "\"}".to_string(),
            "_deleted".to_string(), "√".to_string(), "x♭".to_string(),
        ]),
    ]
}

fn jkey() -> impl Strategy<Value = String> {
    prop_oneof![
        3 => prop::sample::select(vec!["k", "_id", "#", "x♭", "", "a b", "é", "A", "a", "_deleted", "{", "\""])
            .prop_map(|s| s.to_string()),
        1 => jstring(),
    ]
}

fn finite_bits(b: u64) -> u64 {
    if (b >> 52) & 0x7ff == 0x7ff {
        b & !(1u64 << 62)
    } else {
        b
    }
}

pub fn jleaf() -> impl Strategy<Value = J> {
    prop_oneof![
        1 => Just(J::N),
        1 => any::<bool>().prop_map(J::B),
        3 => (-3i64..100).prop_map(J::I),
        1 => any::<i64>().prop_map(J::I),
        1 => any::<u64>().prop_map(J::U),
        1 => prop::sample::select(vec![i64::MIN, i64::MAX, -1, 0]).prop_map(J::I),
        1 => prop::sample::select(vec![u64::MAX, 1u64 << 63, (1u64 << 53) + 1]).prop_map(J::U),
        3 => any::<u64>().prop_map(|b| J::F(finite_bits(b))),
        2 => (-99999i64..99999, 0u32..7).prop_map(|(m, e)| {
            let f: f64 = format!("{}e-{}", m, e).parse().unwrap();
            J::F(f.to_bits())
        }),
        1 => prop::sample::select(vec![0.0f64, -0.0, 1.0, 0.1, 1e300, 5e-324, f64::MAX, 0.3, 1.0715660391465826e-75])
            .prop_map(|f| J::F(f.to_bits())),
        4 => jstring().prop_map(J::S),
    ]
}

pub fn jvalue() -> impl Strategy<Value = J> {
    jleaf().prop_recursive(3, 12, 4, |inner| {
        prop_oneof![
            vec(inner.clone(), 0..4).prop_map(J::A),
            vec((jkey(), inner), 0..4).prop_map(|kv| {
                // keep first occurrence of each key
                let mut seen = std::collections::BTreeSet::new();
                J::O(kv.into_iter().filter(|(k, _)| seen.insert(k.clone())).collect())
            }),
        ]
    })
}

/// "light" values for histories where content richness is not the point
pub fn jlight() -> impl Strategy<Value = J> {
    prop_oneof![
        3 => (0i64..6).prop_map(J::I),
        1 => Just(J::N),
        1 => prop::sample::select(vec!["x", "a}b{", "é√♭", "!b", "^c"]).prop_map(|s| J::S(s.to_string())),
        1 => Just(J::A(vec![J::I(1), J::S("}".into())])),
        1 => Just(J::O(vec![("k♭".into(), J::A(vec![J::O(vec![("_id".into(), J::S("zz".into()))])]))])),
    ]
}

pub fn jinfo(rich: bool) -> BoxedStrategy<Option<Vec<(String, J)>>> {
    if rich {
        prop_oneof![
            1 => Just(None),
            4 => vec((jkey(), jvalue()), 0..4).prop_map(|kv| {
                let mut seen = std::collections::BTreeSet::new();
                Some(kv.into_iter().filter(|(k, _)| seen.insert(k.clone())).collect())
            }),
        ]
        .boxed()
    } else {
        prop_oneof![
            2 => Just(None),
            1 => Just(Some(vec![])),
            4 => (0i64..1000).prop_map(|n| Some(vec![("n".to_string(), J::I(n))])),
        ]
        .boxed()
    }
}

pub fn info_map(i: &Option<Vec<(String, J)>>) -> Option<Map<String, Value>> {
    i.as_ref().map(|kv| {
        let mut m = Map::new();
        for (k, v) in kv {
            m.insert(k.clone(), v.to_value());
        }
        m
    })
}

// ---------------------------------------------------------------- documents

pub const IDS: [&str; 12] = ["p", "q", "r", "s", "!t", "u v", "é", "w@x", "", "k9", "zz", "obj1"];
pub const FIELD_KEYS: [&str; 5] = ["v", "n", "t", "A", "_deleted"];
pub const ROOT_ARR_KEYS: [&str; 3] = ["a\u{266D}", "b\u{266D}", "x@y\u{266D}"];
pub const SUB_KEY: &str = "sub\u{266D}";
pub const OBJ_KEY: &str = "o\u{266D}";

#[derive(Clone, Debug, PartialEq)]
pub enum Flat {
    Arr(Vec<Node>),
    Obj(Box<Node>),
    Scalar(Value),
}

/// a tracked object
#[derive(Clone, Debug, PartialEq, Default)]
pub struct Node {
    pub id: Option<String>,
    pub fields: BTreeMap<String, Value>,
    pub flats: BTreeMap<String, Flat>,
}

impl Node {
    pub fn from_value(v: &Value) -> Node {
        let mut n = Node::default();
        if let Some(o) = v.as_object() {
            for (k, val) in o {
                if k == "_id" {
                    n.id = val.as_str().map(|s| s.to_string());
                } else if k.ends_with('\u{266D}') {
                    let f = match val {
                        Value::Array(a) => {
                            Flat::Arr(a.iter().filter(|e| e.is_object()).map(Node::from_value).collect())
                        }
                        Value::Object(_) => Flat::Obj(Box::new(Node::from_value(val))),
                        _ => Flat::Scalar(val.clone()),
                    };
                    n.flats.insert(k.clone(), f);
                } else {
                    n.fields.insert(k.clone(), val.clone());
                }
            }
        }
        n
    }
    pub fn to_value(&self) -> Value {
        let mut m = Map::new();
        if let Some(i) = &self.id {
            m.insert("_id".into(), Value::from(i.clone()));
        }
        for (k, v) in &self.fields {
            m.insert(k.clone(), v.clone());
        }
        for (k, f) in &self.flats {
            let v = match f {
                Flat::Arr(a) => Value::from(a.iter().map(|n| n.to_value()).collect::<Vec<_>>()),
                Flat::Obj(o) => o.to_value(),
                Flat::Scalar(s) => s.clone(),
            };
            m.insert(k.clone(), v);
        }
        Value::from(m)
    }
    fn ids(&self, out: &mut Vec<String>) {
        if let Some(i) = &self.id {
            out.push(i.clone());
        }
        for f in self.flats.values() {
            match f {
                Flat::Arr(a) => a.iter().for_each(|n| n.ids(out)),
                Flat::Obj(o) => o.ids(out),
                _ => {}
            }
        }
    }
    pub fn all_ids(&self) -> Vec<String> {
        let mut v = vec![];
        self.ids(&mut v);
        v
    }
    pub fn count_objects(&self) -> usize {
        1 + self
            .flats
            .values()
            .map(|f| match f {
                Flat::Arr(a) => a.iter().map(|n| n.count_objects()).sum::<usize>(),
                Flat::Obj(o) => o.count_objects(),
                _ => 0,
            })
            .sum::<usize>()
    }
}

/// path to a tracked object: sequence of (flattened key, index) — index usize::MAX = object field
pub type Path = Vec<(String, usize)>;

fn walk<'a>(n: &'a Node, p: &Path) -> Option<&'a Node> {
    let mut cur = n;
    for (k, i) in p {
        cur = match cur.flats.get(k)? {
            Flat::Arr(a) if *i != usize::MAX => a.get(*i)?,
            Flat::Obj(o) if *i == usize::MAX => o,
            _ => return None,
        };
    }
    Some(cur)
}
fn walk_mut<'a>(n: &'a mut Node, p: &[(String, usize)]) -> Option<&'a mut Node> {
    let mut cur = n;
    for (k, i) in p {
        cur = match cur.flats.get_mut(k)? {
            Flat::Arr(a) if *i != usize::MAX => a.get_mut(*i)?,
            Flat::Obj(o) if *i == usize::MAX => o,
            _ => return None,
        };
    }
    Some(cur)
}

/// all tracked objects (paths), DFS order, root first
fn objects(n: &Node, pre: &Path, out: &mut Vec<Path>) {
    out.push(pre.clone());
    for (k, f) in &n.flats {
        match f {
            Flat::Arr(a) => {
                for (i, e) in a.iter().enumerate() {
                    let mut p = pre.clone();
                    p.push((k.clone(), i));
                    objects(e, &p, out);
                }
            }
            Flat::Obj(o) => {
                let mut p = pre.clone();
                p.push((k.clone(), usize::MAX));
                objects(o, &p, out);
            }
            _ => {}
        }
    }
}
fn elements(n: &Node) -> Vec<Path> {
    let mut v = vec![];
    objects(n, &vec![], &mut v);
    v.into_iter().filter(|p| p.last().map_or(false, |l| l.1 != usize::MAX)).collect()
}
/// array slots: (owner path, key); root owns a♭/b♭, every other tracked object (depth<3) owns sub♭
fn slots(n: &Node) -> Vec<(Path, String)> {
    let mut objs = vec![];
    objects(n, &vec![], &mut objs);
    let mut out = vec![];
    for p in objs {
        if p.is_empty() {
            for k in ROOT_ARR_KEYS {
                out.push((p.clone(), k.to_string()));
            }
        } else if p.len() < 3 {
            out.push((p.clone(), SUB_KEY.to_string()));
        }
    }
    out
}
/// existing arrays only
fn arrays(n: &Node) -> Vec<(Path, String)> {
    let mut objs = vec![];
    objects(n, &vec![], &mut objs);
    let mut out = vec![];
    for p in objs {
        let o = walk(n, &p).unwrap();
        for (k, f) in &o.flats {
            if matches!(f, Flat::Arr(_)) {
                out.push((p.clone(), k.clone()));
            }
        }
    }
    out
}

/// monotone selector mapping
pub fn sel(s: u16, len: usize) -> usize {
    ((s as usize) * len) >> 16
}

#[derive(Clone, Debug, PartialEq, Serialize, Deserialize)]
pub struct Content {
    pub v: Option<J>,
    pub n: Option<J>,
}

impl Content {
    fn apply(&self, n: &mut Node) {
        if let Some(v) = &self.v {
            n.fields.insert("v".into(), v.to_value());
        }
        if let Some(v) = &self.n {
            n.fields.insert("n".into(), v.to_value());
        }
    }
}

#[derive(Clone, Debug, PartialEq, Serialize, Deserialize)]
pub enum FlatKind {
    Absent,
    EmptyArr,
    Obj { id: Option<u16>, content: Content },
    Scalar(J),
}

#[derive(Clone, Debug, PartialEq, Serialize, Deserialize)]
pub enum EditStep {
    Insert { arr: u16, pos: u16, id: u16, content: Content },
    Remove { elem: u16 },
    Move { elem: u16, arr: u16, pos: u16 },
    SetField { obj: u16, key: u8, val: Option<J> },
    SetFlat { obj: u16, key: u8, kind: FlatKind },
    Reverse { arr: u16 },
    Rotate { arr: u16 },
    RemoveKey { arr: u16 },
    Replace { items: Vec<(u16, u16, Content)>, t: Option<J>, o: FlatKind },
    Clear,
    /// many elements at once (more objects than the default cache capacities, long arrays)
    Bulk { arr: u16, n: u8, v: Option<J> },
}

fn free_id(n: &Node, s: u16, no_bang: bool) -> Option<String> {
    let used = n.all_ids();
    let free: Vec<&str> = IDS
        .iter()
        .filter(|i| !used.iter().any(|u| u == *i) && !(no_bang && i.starts_with('!')))
        .cloned()
        .collect();
    if free.is_empty() {
        None
    } else {
        Some(free[sel(s, free.len())].to_string())
    }
}

fn insert_into(root: &mut Node, slot: &(Path, String), pos: u16, e: Node) -> bool {
    let Some(owner) = walk_mut(root, &slot.0) else { return false };
    let f = owner.flats.entry(slot.1.clone()).or_insert_with(|| Flat::Arr(vec![]));
    if !matches!(f, Flat::Arr(_)) {
        *f = Flat::Arr(vec![]);
    }
    if let Flat::Arr(a) = f {
        let at = sel(pos, a.len() + 1);
        a.insert(at, e);
        true
    } else {
        false
    }
}

fn mk_flat(root: &Node, kind: &FlatKind) -> Option<Flat> {
    match kind {
        FlatKind::Absent => None,
        FlatKind::EmptyArr => Some(Flat::Arr(vec![])),
        FlatKind::Obj { id, content } => {
            let mut n = Node::default();
            if let Some(s) = id {
                n.id = free_id(root, *s, true);
            }
            content.apply(&mut n);
            Some(Flat::Obj(Box::new(n)))
        }
        FlatKind::Scalar(j) => {
            let v = j.to_value();
            // arrays/objects are not scalars: wrap them away
            Some(Flat::Scalar(if v.is_array() || v.is_object() { Value::Null } else { v }))
        }
    }
}

/// Apply an edit to a document (Node tree). Returns the number of steps that had an effect.
pub fn apply_edit(root: &mut Node, steps: &[EditStep]) -> usize {
    let mut eff = 0;
    for st in steps {
        match st {
            EditStep::Insert { arr, pos, id, content } => {
                let sl = slots(root);
                let Some(newid) = free_id(root, *id, false) else { continue };
                let slot = sl[sel(*arr, sl.len())].clone();
                let mut e = Node { id: Some(newid), ..Default::default() };
                content.apply(&mut e);
                if insert_into(root, &slot, *pos, e) {
                    eff += 1;
                }
            }
            EditStep::Remove { elem } => {
                let els = elements(root);
                if els.is_empty() {
                    continue;
                }
                let p = els[sel(*elem, els.len())].clone();
                let (last, pre) = p.split_last().unwrap();
                if let Some(owner) = walk_mut(root, pre) {
                    if let Some(Flat::Arr(a)) = owner.flats.get_mut(&last.0) {
                        a.remove(last.1);
                        eff += 1;
                    }
                }
            }
            EditStep::Move { elem, arr, pos } => {
                let els = elements(root);
                if els.is_empty() {
                    continue;
                }
                let p = els[sel(*elem, els.len())].clone();
                let (last, pre) = p.split_last().unwrap();
                let mut taken = None;
                if let Some(owner) = walk_mut(root, pre) {
                    if let Some(Flat::Arr(a)) = owner.flats.get_mut(&last.0) {
                        taken = Some(a.remove(last.1));
                    }
                }
                if let Some(e) = taken {
                    let sl = slots(root);
                    // prefer existing arrays half of the time (selector parity), else any slot
                    let ar = arrays(root);
                    let slot = if arr & 1 == 0 && !ar.is_empty() {
                        ar[sel(*arr, ar.len())].clone()
                    } else {
                        sl[sel(*arr, sl.len())].clone()
                    };
                    // depth bound: an element with children moved deep could exceed depth 3; allowed
                    insert_into(root, &slot, *pos, e);
                    eff += 1;
                }
            }
            EditStep::SetField { obj, key, val } => {
                let mut objs = vec![];
                objects(root, &vec![], &mut objs);
                let p = objs[sel(*obj, objs.len())].clone();
                let k = FIELD_KEYS[*key as usize % FIELD_KEYS.len()];
                if let Some(o) = walk_mut(root, &p) {
                    match val {
                        Some(v) => {
                            o.fields.insert(k.to_string(), v.to_value());
                        }
                        None => {
                            o.fields.remove(k);
                        }
                    }
                    eff += 1;
                }
            }
            EditStep::SetFlat { obj, key, kind } => {
                let mut objs = vec![];
                objects(root, &vec![], &mut objs);
                let p = objs[sel(*obj, objs.len())].clone();
                if p.len() >= 3 {
                    continue;
                }
                let keys: Vec<&str> = if p.is_empty() {
                    vec![ROOT_ARR_KEYS[0], ROOT_ARR_KEYS[1], OBJ_KEY, ROOT_ARR_KEYS[2]]
                } else {
                    vec![SUB_KEY, OBJ_KEY]
                };
                let k = keys[*key as usize % keys.len()].to_string();
                // remove first so that ids inside the old value are free again
                if let Some(o) = walk_mut(root, &p) {
                    o.flats.remove(&k);
                }
                let f = mk_flat(root, kind);
                if let Some(o) = walk_mut(root, &p) {
                    if let Some(f) = f {
                        o.flats.insert(k, f);
                    }
                    eff += 1;
                }
            }
            EditStep::Reverse { arr } | EditStep::Rotate { arr } | EditStep::RemoveKey { arr } => {
                let ar = arrays(root);
                if ar.is_empty() {
                    continue;
                }
                let (p, k) = ar[sel(*arr, ar.len())].clone();
                if let Some(o) = walk_mut(root, &p) {
                    if matches!(st, EditStep::RemoveKey { .. }) {
                        o.flats.remove(&k);
                        eff += 1;
                    } else if let Some(Flat::Arr(a)) = o.flats.get_mut(&k) {
                        if a.len() > 1 {
                            if matches!(st, EditStep::Reverse { .. }) {
                                a.reverse();
                            } else {
                                a.rotate_left(1);
                            }
                            eff += 1;
                        }
                    }
                }
            }
            EditStep::Replace { items, t, o } => {
                let mut n = Node::default();
                if let Some(t) = t {
                    n.fields.insert("t".into(), t.to_value());
                }
                n.flats.insert(ROOT_ARR_KEYS[0].into(), Flat::Arr(vec![]));
                for (id, place, content) in items {
                    let Some(newid) = free_id(&n, *id, false) else { continue };
                    let sl = slots(&n);
                    let slot = sl[sel(*place, sl.len())].clone();
                    let mut e = Node { id: Some(newid), ..Default::default() };
                    content.apply(&mut e);
                    insert_into(&mut n, &slot, u16::MAX, e);
                }
                if let Some(f) = mk_flat(&n, o) {
                    n.flats.insert(OBJ_KEY.into(), f);
                }
                *root = n;
                eff += 1;
            }
            EditStep::Clear => {
                *root = Node::default();
                eff += 1;
            }
            EditStep::Bulk { arr, n, v } => {
                let sl = slots(root);
                let slot = sl[sel(*arr, sl.len())].clone();
                let used = root.all_ids();
                let mut k = 0u32;
                for _ in 0..*n {
                    // ids outside the small pool: e00, e01, ...
                    let id = loop {
                        let c = format!("e{:03}", k);
                        k += 1;
                        if !used.iter().any(|u| *u == c) {
                            break c;
                        }
                    };
                    let mut e = Node { id: Some(id), ..Default::default() };
                    if let Some(v) = v {
                        e.fields.insert("v".into(), v.to_value());
                    }
                    insert_into(root, &slot, u16::MAX, e);
                }
                eff += 1;
            }
        }
    }
    eff
}

pub fn content(rich: bool) -> BoxedStrategy<Content> {
    if rich {
        (prop::option::weighted(0.8, jvalue()), prop::option::weighted(0.2, jvalue()))
            .prop_map(|(v, n)| Content { v, n })
            .boxed()
    } else {
        (prop::option::weighted(0.8, jlight()), prop::option::weighted(0.1, jlight()))
            .prop_map(|(v, n)| Content { v, n })
            .boxed()
    }
}

pub fn flatkind(rich: bool) -> BoxedStrategy<FlatKind> {
    prop_oneof![
        2 => Just(FlatKind::Absent),
        2 => Just(FlatKind::EmptyArr),
        3 => (prop::option::of(any::<u16>()), content(rich)).prop_map(|(id, content)| FlatKind::Obj { id, content }),
        2 => if rich { jleaf().boxed() } else { jlight().boxed() }.prop_map(FlatKind::Scalar),
    ]
    .boxed()
}

pub fn edit_step(rich: bool) -> BoxedStrategy<EditStep> {
    let val = if rich { jvalue().boxed() } else { jlight().boxed() };
    prop_oneof![
        8 => (any::<u16>(), any::<u16>(), any::<u16>(), content(rich))
            .prop_map(|(arr, pos, id, content)| EditStep::Insert { arr, pos, id, content }),
        5 => any::<u16>().prop_map(|elem| EditStep::Remove { elem }),
        5 => (any::<u16>(), any::<u16>(), any::<u16>()).prop_map(|(elem, arr, pos)| EditStep::Move { elem, arr, pos }),
        5 => (any::<u16>(), 0u8..5, prop::option::weighted(0.85, val))
            .prop_map(|(obj, key, val)| EditStep::SetField { obj, key, val }),
        3 => (any::<u16>(), 0u8..4, flatkind(rich)).prop_map(|(obj, key, kind)| EditStep::SetFlat { obj, key, kind }),
        1 => any::<u16>().prop_map(|arr| EditStep::Reverse { arr }),
        2 => any::<u16>().prop_map(|arr| EditStep::Rotate { arr }),
        1 => any::<u16>().prop_map(|arr| EditStep::RemoveKey { arr }),
        2 => (
            vec((any::<u16>(), any::<u16>(), content(rich)), 0..7),
            prop::option::of(if rich { jvalue().boxed() } else { jlight().boxed() }),
            flatkind(rich)
        )
            .prop_map(|(items, t, o)| EditStep::Replace { items, t, o }),
        1 => Just(EditStep::Clear),
        1 => (any::<u16>(), prop_oneof![4 => 5u8..30, 1 => 100u8..140], prop::option::of(jlight())).prop_map(|(arr, n, v)| EditStep::Bulk { arr, n, v }),
    ]
    .boxed()
}

pub fn edit(rich: bool) -> BoxedStrategy<Vec<EditStep>> {
    vec(edit_step(rich), 1..4).boxed()
}

// ---------------------------------------------------------------- operations

#[derive(Clone, Debug, PartialEq, Serialize, Deserialize)]
pub enum Op {
    Update { r: u8, edit: Vec<EditStep> },
    Commit { r: u8, info: Option<Vec<(String, J)>> },
    MeldRefresh { r: u8, from: u8 },
    Meld { r: u8, from: u8 },
    Refresh { r: u8 },
    Reload { r: u8 },
    Reopen { r: u8 },
    FileCopy { r: u8, from: u8, count: u16, perm: u64, refresh_each: bool },
    Resolve { r: u8, obj: u16, leaf: u16 },
    Unstage { r: u8 },
    StageRoundTrip { r: u8 },
    Snapshot { r: u8 },
    TimeTravel { r: u8, heads: u16 },
    LowLevel { r: u8, kind: u8, id: u8, content: J },
    /// composite: `from` commits, `r` melds + refreshes from it, edits and commits (yields merge blocks)
    MergeCommit { r: u8, from: u8, edit: Vec<EditStep> },
    /// composite: n successive small updates of the root object (revision indices >= 10 / >= 100),
    /// optionally each followed by a commit (block indices >= 10)
    Churn { r: u8, n: u8, commit_each: bool },
    /// commit while the backend rejects the k-th write of that commit (0 = first write)
    FaultyCommit { r: u8, k: u8, info: Option<Vec<(String, J)>> },
    /// submit again the document this replica submitted last (after whatever happened since)
    Resubmit { r: u8 },
    /// an item that is neither block nor pack appears in the replica's storage (a file another tool put
    /// there); its bytes are a function of its name, so the same name never carries different bytes
    Foreign { r: u8, k: u8 },
    /// meld while reads of the *source* replica's storage fail (what: 0 blocks, 1 packs, 2 everything;
    /// the n-th such read fails when bit n%64 of mask is set)
    FaultyMeld { r: u8, from: u8, what: u8, mask: u64 },
    /// composite: r, `from` and a third replica synchronise; `from` and r edit concurrently and commit; r
    /// melds + refreshes (array conflict when both touched one array); the third replica learns both
    /// versions; r takes a full snapshot and commits; the third replica edits on top of what it knows and
    /// commits; r melds + refreshes from it
    SnapshotRace { r: u8, from: u8, e1: Vec<EditStep>, e2: Vec<EditStep>, e3: Vec<EditStep> },
    /// export the staged changes, then replay the export in an unusual place: mode 0 = after further edits
    /// (nothing discarded), 1 = after discarding and making other edits, 2 = after committing them
    ReplayOnto { r: u8, mode: u8, edit: Vec<EditStep> },
    /// a block file of `from` reaches r's storage half-written (complete = false), or every half-written
    /// item of r is completed (complete = true)
    TornBlock { r: u8, from: u8, pick: u16, complete: bool },
}

pub const FOREIGN_NAMES: [&str; 7] = ["notes.txt", "README", "blob.bin", "x.delta.bak", "y.pack.tmp", ".hidden", "\u{fc}.dat"];
pub fn foreign_item(k: u8) -> (String, Vec<u8>) {
    let i = k as usize % FOREIGN_NAMES.len();
    let name = FOREIGN_NAMES[i].to_string();
    let len = [0usize, 1, 17, 300, 5000, 64, 2][i];
    let bytes = (0..len).map(|j| ((j * 31 + i * 7) % 251) as u8).collect();
    (name, bytes)
}

impl Op {
    pub fn kind(&self) -> &'static str {
        match self {
            Op::Update { .. } => "update",
            Op::Commit { .. } => "commit",
            Op::MeldRefresh { .. } => "meldrefresh",
            Op::Meld { .. } => "meld",
            Op::Refresh { .. } => "refresh",
            Op::Reload { .. } => "reload",
            Op::Reopen { .. } => "reopen",
            Op::FileCopy { .. } => "filecopy",
            Op::Resolve { .. } => "resolve",
            Op::Unstage { .. } => "unstage",
            Op::StageRoundTrip { .. } => "stageroundtrip",
            Op::Snapshot { .. } => "snapshot",
            Op::TimeTravel { .. } => "timetravel",
            Op::LowLevel { .. } => "lowlevel",
            Op::MergeCommit { .. } => "mergecommit",
            Op::Churn { .. } => "churn",
            Op::FaultyCommit { .. } => "faultycommit",
            Op::Resubmit { .. } => "resubmit",
            Op::Foreign { .. } => "foreign",
            Op::FaultyMeld { .. } => "faultymeld",
            Op::SnapshotRace { .. } => "snapshotrace",
            Op::ReplayOnto { .. } => "replayonto",
            Op::TornBlock { .. } => "tornblock",
        }
    }
}

/// relative weights of the operation kinds
#[derive(Clone, Debug)]
pub struct Mix {
    pub update: u32,
    pub commit: u32,
    pub meldrefresh: u32,
    pub meld: u32,
    pub refresh: u32,
    pub reload: u32,
    pub reopen: u32,
    pub filecopy: u32,
    pub resolve: u32,
    pub unstage: u32,
    pub stagert: u32,
    pub snapshot: u32,
    pub timetravel: u32,
    pub lowlevel: u32,
    pub mergecommit: u32,
    pub churn: u32,
    pub faultycommit: u32,
    pub foreign: u32,
    pub faultymeld: u32,
    pub snaprace: u32,
    pub tornblock: u32,
    pub rich: bool,
    pub rich_info: bool,
}

impl Default for Mix {
    fn default() -> Self {
        Mix {
            update: 8,
            commit: 5,
            meldrefresh: 5,
            meld: 1,
            refresh: 1,
            reload: 1,
            reopen: 1,
            filecopy: 2,
            resolve: 2,
            unstage: 1,
            stagert: 1,
            snapshot: 1,
            timetravel: 1,
            lowlevel: 0,
            mergecommit: 2,
            churn: 1,
            faultycommit: 1,
            foreign: 0,
            faultymeld: 0,
            snaprace: 1,
            tornblock: 0,
            rich: false,
            rich_info: false,
        }
    }
}

pub fn op(m: &Mix) -> BoxedStrategy<Op> {
    let r = any::<u8>();
    let mut alts: Vec<(u32, BoxedStrategy<Op>)> = vec![];
    let mut add = |w: u32, s: BoxedStrategy<Op>| {
        if w > 0 {
            alts.push((w, s));
        }
    };
    add(m.update, (r, edit(m.rich)).prop_map(|(r, edit)| Op::Update { r, edit }).boxed());
    add(m.commit, (r, jinfo(m.rich_info)).prop_map(|(r, info)| Op::Commit { r, info }).boxed());
    add(m.meldrefresh, (r, any::<u8>()).prop_map(|(r, from)| Op::MeldRefresh { r, from }).boxed());
    add(m.meld, (r, any::<u8>()).prop_map(|(r, from)| Op::Meld { r, from }).boxed());
    add(m.refresh, r.prop_map(|r| Op::Refresh { r }).boxed());
    add(m.reload, r.prop_map(|r| Op::Reload { r }).boxed());
    add(m.reopen, r.prop_map(|r| Op::Reopen { r }).boxed());
    add(
        m.filecopy,
        (r, any::<u8>(), any::<u16>(), any::<u64>(), any::<bool>())
            .prop_map(|(r, from, count, perm, refresh_each)| Op::FileCopy { r, from, count, perm, refresh_each })
            .boxed(),
    );
    add(m.resolve, (r, any::<u16>(), any::<u16>()).prop_map(|(r, obj, leaf)| Op::Resolve { r, obj, leaf }).boxed());
    add(m.unstage, r.prop_map(|r| Op::Unstage { r }).boxed());
    add(m.stagert, r.prop_map(|r| Op::StageRoundTrip { r }).boxed());
    add(m.snapshot, r.prop_map(|r| Op::Snapshot { r }).boxed());
    add(m.timetravel, (r, any::<u16>()).prop_map(|(r, heads)| Op::TimeTravel { r, heads }).boxed());
    add(
        m.lowlevel,
        (r, 0u8..4, 0u8..6, jlight()).prop_map(|(r, kind, id, content)| Op::LowLevel { r, kind, id, content }).boxed(),
    );
    add(
        m.churn,
        (r, prop_oneof![4 => 9u8..14, 1 => 99u8..104], prop::bool::weighted(0.3))
            .prop_map(|(r, n, commit_each)| Op::Churn { r, n: if commit_each { n.min(13) } else { n }, commit_each })
            .boxed(),
    );
    add(if m.update > 0 { 1 } else { 0 }, r.prop_map(|r| Op::Resubmit { r }).boxed());
    add(
        m.faultymeld,
        (r, any::<u8>(), 0u8..3, prop_oneof![1 => Just(u64::MAX), 1 => Just(1u64), 2 => any::<u64>()])
            .prop_map(|(r, from, what, mask)| Op::FaultyMeld { r, from, what, mask })
            .boxed(),
    );
    add(
        m.snaprace,
        (r, any::<u8>(), edit(m.rich), edit(m.rich), edit(m.rich)).prop_map(|(r, from, e1, e2, e3)| Op::SnapshotRace { r, from, e1, e2, e3 }).boxed(),
    );
    add(m.stagert, (r, 0u8..3, edit(m.rich)).prop_map(|(r, mode, edit)| Op::ReplayOnto { r, mode, edit }).boxed());
    add(
        m.tornblock,
        (r, any::<u8>(), any::<u16>(), prop::bool::weighted(0.3)).prop_map(|(r, from, pick, complete)| Op::TornBlock { r, from, pick, complete }).boxed(),
    );
    add(m.foreign, (r, any::<u8>()).prop_map(|(r, k)| Op::Foreign { r, k }).boxed());
    add(m.faultycommit, (r, 0u8..2, jinfo(false)).prop_map(|(r, k, info)| Op::FaultyCommit { r, k, info }).boxed());
    add(m.mergecommit, (r, any::<u8>(), edit(m.rich)).prop_map(|(r, from, edit)| Op::MergeCommit { r, from, edit }).boxed());
    proptest::strategy::Union::new_weighted(alts).boxed()
}

pub fn history(m: &Mix, max_len: usize) -> BoxedStrategy<Vec<Op>> {
    vec(op(m), 0..max_len).boxed()
}
