//! Reference models, written from the property texts; no melda code is used here.
use crate::store::Snap;
use serde_json::{Map, Value};
use sha2::{Digest, Sha256};
use std::cmp::Ordering;
use std::collections::{BTreeMap, BTreeSet};

pub const ROOT: &str = "\u{221A}";
pub const FLAT: char = '\u{266D}';

pub fn sha_hex(b: &[u8]) -> String {
    let mut h = Sha256::new();
    h.update(b);
    hex::encode(h.finalize())
}

// ---------------------------------------------------------------- revisions

#[derive(Clone, Debug, PartialEq, Eq)]
pub struct Rev {
    pub idx: u64,
    pub digest: String,
    pub tail: Option<String>,
}

impl Rev {
    /// strict parser for system-produced revision strings
    pub fn parse(s: &str) -> Option<Rev> {
        let (i, rest) = s.split_once('-')?;
        if i.is_empty() || !i.bytes().all(|c| c.is_ascii_digit()) {
            return None;
        }
        let idx: u64 = i.parse().ok()?;
        let (digest, tail) = match rest.split_once('_') {
            Some((d, t)) => (d, Some(t.to_string())),
            None => (rest, None),
        };
        if digest.is_empty() || !digest.bytes().all(|c| c.is_ascii_alphanumeric()) {
            return None;
        }
        if let Some(t) = &tail {
            if t.is_empty() || !t.bytes().all(|c| c.is_ascii_alphanumeric()) {
                return None;
            }
        }
        Some(Rev { idx, digest: digest.to_string(), tail })
    }
    pub fn print(&self) -> String {
        if self.idx > 1 {
            format!("{}-{}_{}", self.idx, self.digest, self.tail.as_deref().unwrap_or(""))
        } else {
            format!("{}-{}", self.idx, self.digest)
        }
    }
    pub fn is_marker(&self) -> bool {
        self.digest == "r"
    }
    pub fn is_deleted(&self) -> bool {
        self.digest == "d"
    }
}

/// identifier of the child revision with the given digest below `parent` (None = creation)
pub fn child_rev(digest: &str, parent: Option<&str>) -> String {
    match parent {
        None => format!("1-{}", digest),
        Some(p) => {
            let pi = Rev::parse(p).map(|r| r.idx).unwrap_or(0);
            format!("{}-{}_{}", pi + 1, digest, &sha_hex(p.as_bytes())[..7])
        }
    }
}

pub fn rev_idx(s: &str) -> u64 {
    s.split('-').next().and_then(|x| x.parse().ok()).unwrap_or(0)
}
pub fn rev_digest(s: &str) -> &str {
    let rest = s.split_once('-').map(|x| x.1).unwrap_or("");
    rest.split('_').next().unwrap_or("")
}
pub fn rev_is_marker(s: &str) -> bool {
    rev_digest(s) == "r"
}
pub fn rev_is_deleted(s: &str) -> bool {
    rev_digest(s) == "d"
}

/// The fixed total order of the property: resolution markers lowest (string order among
/// themselves); otherwise longer history (index) first, ties by byte-wise identifier order.
pub fn ref_cmp(a: &str, b: &str) -> Ordering {
    let (ma, mb) = (rev_is_marker(a), rev_is_marker(b));
    if ma && mb {
        a.as_bytes().cmp(b.as_bytes())
    } else if ma {
        Ordering::Less
    } else if mb {
        Ordering::Greater
    } else {
        rev_idx(a).cmp(&rev_idx(b)).then_with(|| a.as_bytes().cmp(b.as_bytes()))
    }
}

/// recorded revisions of one object: revision -> parent
pub type Recs = BTreeMap<String, Option<String>>;

/// live leaves (sorted ascending by the reference order) of a set of recorded revisions
pub fn live_leaves(recs: &Recs) -> Vec<String> {
    let parents: BTreeSet<&String> = recs.values().filter_map(|p| p.as_ref()).collect();
    let mut leaves = vec![];
    for r in recs.keys() {
        if rev_is_marker(r) || parents.contains(r) {
            continue;
        }
        // ancestry must reach a creation revision (index 1, no parent)
        let mut cur = r;
        let mut steps = 0usize;
        let ok = loop {
            match recs.get(cur) {
                None => break false,
                Some(None) => break rev_idx(cur) == 1,
                Some(Some(p)) => {
                    if rev_idx(cur) == 1 {
                        // an index-1 revision with a parent is not a creation revision; keep walking
                    }
                    cur = p;
                }
            }
            steps += 1;
            if steps > recs.len() + 1 {
                break false; // cycle: cannot reach a creation
            }
        };
        if ok {
            leaves.push(r.clone());
        }
    }
    leaves.sort_by(|a, b| ref_cmp(a, b));
    leaves
}

// ---------------------------------------------------------------- blocks, packs, closure

#[derive(Clone, Debug)]
pub struct Block {
    pub name: String, // "<idx>-<hash>"
    pub idx: u64,
    pub parents: BTreeSet<String>,
    pub packs: BTreeSet<String>,
    /// (uuid, revision, parent revision)
    pub changes: Vec<(String, String, Option<String>)>,
    pub info: Option<Value>,
}

fn strict_block_name(stem: &str) -> Option<(u64, &str)> {
    let (i, h) = stem.split_once('-')?;
    if i.is_empty() || i.len() > 10 || !i.bytes().all(|c| c.is_ascii_digit()) {
        return None;
    }
    let idx: u64 = i.parse().ok()?;
    if idx > u32::MAX as u64 || (i.len() > 1 && i.starts_with('0')) {
        return None;
    }
    if h.len() != 64 || !h.bytes().all(|c| c.is_ascii_hexdigit() && !c.is_ascii_uppercase()) {
        return None;
    }
    Some((idx, h))
}

/// parse a block file independently of melda; None = not a trustworthy block
pub fn parse_block(stem: &str, bytes: &[u8]) -> Option<Block> {
    let (idx, h) = strict_block_name(stem)?;
    if sha_hex(bytes) != h {
        return None;
    }
    let v: Value = serde_json::from_slice(bytes).ok()?;
    let o = v.as_object()?;
    let mut parents = BTreeSet::new();
    if let Some(p) = o.get("p") {
        for x in p.as_array()? {
            let s = x.as_str()?;
            strict_block_name(s)?;
            parents.insert(s.to_string());
        }
    }
    let want = parents.iter().map(|p| strict_block_name(p).unwrap().0).max().unwrap_or(0) + 1;
    if want != idx {
        return None;
    }
    let mut packs = BTreeSet::new();
    if let Some(k) = o.get("k") {
        for x in k.as_array()? {
            packs.insert(x.as_str()?.to_string());
        }
    }
    let info = match o.get("i") {
        None => None,
        Some(i) => {
            if !i.is_object() {
                return None;
            }
            Some(i.clone())
        }
    };
    let mut changes = vec![];
    if let Some(c) = o.get("c") {
        if let Some(arr) = c.as_array() {
            for rec in arr {
                let Some(a) = rec.as_array() else { continue };
                if a.len() == 2 {
                    let u = a[0].as_str()?;
                    let d = a[1].as_str()?;
                    changes.push((u.to_string(), child_rev(d, None), None));
                } else if a.len() == 3 {
                    let u = a[0].as_str()?;
                    let p = a[1].as_str()?;
                    let d = a[2].as_str()?;
                    Rev::parse(p)?;
                    changes.push((u.to_string(), child_rev(d, Some(p)), Some(p.to_string())));
                } else {
                    return None;
                }
            }
        }
    }
    Some(Block { name: stem.to_string(), idx, parents, packs, changes, info })
}

/// String-aware scan of a pack: SHA-256 of the raw bytes of every outermost JSON object (an object
/// that is not nested inside another object), whatever surrounds it (array brackets, commas,
/// whitespace). For the current format (one JSON array of objects) these are the array elements.
pub fn scan_pack(bytes: &[u8]) -> Vec<(String, usize, usize)> {
    let mut out = vec![];
    let mut obj_depth = 0i64;
    let mut in_str = false;
    let mut esc = false;
    let mut start = 0usize;
    for (i, &c) in bytes.iter().enumerate() {
        if in_str {
            if esc {
                esc = false;
            } else if c == b'\\' {
                esc = true;
            } else if c == b'"' {
                in_str = false;
            }
            continue;
        }
        match c {
            b'"' => in_str = true,
            b'{' => {
                if obj_depth == 0 {
                    start = i;
                }
                obj_depth += 1;
            }
            b'}' => {
                obj_depth -= 1;
                if obj_depth == 0 {
                    out.push((sha_hex(&bytes[start..=i]), start, i + 1 - start));
                }
                if obj_depth < 0 {
                    obj_depth = 0;
                }
            }
            _ => {}
        }
    }
    out
}

pub fn special_digest(d: &str) -> bool {
    d == "d" || d == "r" || d == "e" || (d.len() <= 8 && u32::from_str_radix(d, 16).is_ok())
}

pub struct Closure {
    /// blocks that are intact and causally complete
    pub applied: BTreeMap<String, Block>,
    /// intact blocks that are not (yet) complete
    pub held: BTreeSet<String>,
    /// valid packs
    pub packs: BTreeSet<String>,
    /// object digests available from valid packs
    pub objects: BTreeSet<String>,
    /// a pack file whose bytes do not hash to its name exists (open/reload must report an error)
    pub bad_pack: bool,
}

/// Intact, causally complete subset of a storage snapshot.
pub fn closure(snap: &Snap) -> Closure {
    let mut packs = BTreeSet::new();
    let mut objects = BTreeSet::new();
    let mut bad_pack = false;
    for (k, v) in snap {
        if let Some(stem) = k.strip_suffix(".pack") {
            if sha_hex(v) == stem {
                packs.insert(stem.to_string());
                for (d, _, _) in scan_pack(v) {
                    objects.insert(d);
                }
            } else {
                bad_pack = true;
            }
        }
    }
    let mut blocks: BTreeMap<String, Block> = BTreeMap::new();
    for (k, v) in snap {
        if let Some(stem) = k.strip_suffix(".delta") {
            if let Some(b) = parse_block(stem, v) {
                blocks.insert(stem.to_string(), b);
            }
        }
    }
    // local completeness
    let local_ok = |b: &Block| -> bool {
        b.packs.iter().all(|p| packs.contains(p))
            && b.changes.iter().all(|(_, r, p)| {
                let d = rev_digest(r);
                (special_digest(d) || objects.contains(d))
                    && p.as_ref().map_or(true, |p| {
                        let d = rev_digest(p);
                        special_digest(d) || objects.contains(d)
                    })
            })
    };
    let mut applied: BTreeMap<String, Block> = BTreeMap::new();
    let mut changed = true;
    while changed {
        changed = false;
        for (n, b) in &blocks {
            if applied.contains_key(n) {
                continue;
            }
            if b.parents.iter().all(|p| applied.contains_key(p)) && local_ok(b) {
                applied.insert(n.clone(), b.clone());
                changed = true;
            }
        }
    }
    let held = blocks.keys().filter(|n| !applied.contains_key(*n)).cloned().collect();
    Closure { applied, held, packs, objects, bad_pack }
}

impl Closure {
    /// storage items of the closure only (applied blocks + every valid pack)
    pub fn items(&self, snap: &Snap) -> Snap {
        let mut s = Snap::new();
        for n in self.applied.keys() {
            let k = format!("{}.delta", n);
            s.insert(k.clone(), snap[&k].clone());
        }
        for p in &self.packs {
            let k = format!("{}.pack", p);
            s.insert(k.clone(), snap[&k].clone());
        }
        s
    }
    pub fn heads(&self) -> BTreeSet<String> {
        let mut h: BTreeSet<String> = self.applied.keys().cloned().collect();
        for b in self.applied.values() {
            for p in &b.parents {
                h.remove(p);
            }
        }
        h
    }
    /// recorded revisions per object from the applied blocks
    pub fn records(&self) -> BTreeMap<String, Recs> {
        let mut out: BTreeMap<String, Recs> = BTreeMap::new();
        for b in self.applied.values() {
            for (u, r, p) in &b.changes {
                out.entry(u.clone()).or_default().entry(r.clone()).or_insert_with(|| p.clone());
            }
        }
        out
    }
}

/// ancestors (inclusive) of a set of block names within a block map
pub fn ancestry(blocks: &BTreeMap<String, Block>, heads: &BTreeSet<String>) -> BTreeSet<String> {
    let mut seen = BTreeSet::new();
    let mut q: Vec<String> = heads.iter().cloned().collect();
    while let Some(n) = q.pop() {
        if !seen.insert(n.clone()) {
            continue;
        }
        if let Some(b) = blocks.get(&n) {
            q.extend(b.parents.iter().cloned());
        }
    }
    seen
}

/// records from a stage export ({"c":[...],"o":{...}})
pub fn stage_records(stage: &Value, out: &mut BTreeMap<String, Recs>) {
    if let Some(c) = stage.get("c").and_then(|c| c.as_array()) {
        for rec in c {
            let Some(a) = rec.as_array() else { continue };
            if a.len() == 2 {
                let (u, d) = (a[0].as_str().unwrap_or(""), a[1].as_str().unwrap_or(""));
                out.entry(u.to_string()).or_default().entry(child_rev(d, None)).or_insert(None);
            } else if a.len() == 3 {
                let (u, p, d) =
                    (a[0].as_str().unwrap_or(""), a[1].as_str().unwrap_or(""), a[2].as_str().unwrap_or(""));
                out.entry(u.to_string())
                    .or_default()
                    .entry(child_rev(d, Some(p)))
                    .or_insert(Some(p.to_string()));
            }
        }
    }
}

// ---------------------------------------------------------------- edit scripts and merged orders

/// reference application of an edit script ([["d",len,idx]] / [["i",idx,[items]]])
pub fn ref_apply(order: &mut Vec<Value>, patch: &[Value]) -> Result<(), String> {
    for op in patch {
        let t = op.get(0).and_then(|x| x.as_str()).ok_or("bad op")?;
        if t == "d" {
            let len = op.get(1).and_then(|x| x.as_u64()).ok_or("bad len")? as usize;
            let idx = op.get(2).and_then(|x| x.as_u64()).ok_or("bad idx")? as usize;
            if idx + len > order.len() {
                return Err(format!("delete out of range {}+{}>{}", idx, len, order.len()));
            }
            for _ in 0..len {
                order.remove(idx);
            }
        } else if t == "i" {
            let idx = op.get(1).and_then(|x| x.as_u64()).ok_or("bad idx")? as usize;
            let items = op.get(2).and_then(|x| x.as_array()).ok_or("bad items")?;
            if idx > order.len() {
                return Err(format!("insert out of range {}>{}", idx, order.len()));
            }
            for (k, it) in items.iter().enumerate() {
                order.insert(idx + k, it.clone());
            }
        } else {
            return Err(format!("bad op kind {t}"));
        }
    }
    Ok(())
}

/// positions of `sub`'s elements inside `sup`; true if they appear in the same relative order
pub fn keeps_relative_order<T: PartialEq>(sub: &[T], sup: &[T]) -> bool {
    let pos: Vec<usize> = sub.iter().filter_map(|e| sup.iter().position(|x| x == e)).collect();
    pos.windows(2).all(|w| w[0] < w[1])
}

/// do two duplicate-free sequences agree on the relative order of their common elements?
pub fn agree_on_common<T: PartialEq>(a: &[T], b: &[T]) -> bool {
    let ca: Vec<&T> = a.iter().filter(|x| b.contains(x)).collect();
    let cb: Vec<&T> = b.iter().filter(|x| a.contains(x)).collect();
    ca.len() == cb.len() && ca.iter().zip(cb.iter()).all(|(x, y)| x == y)
}

// ---------------------------------------------------------------- documents

fn tracked_id(o: &Map<String, Value>, path: &[String]) -> String {
    if let Some(i) = o.get("_id").and_then(|x| x.as_str()) {
        i.to_string()
    } else if path.is_empty() {
        ROOT.to_string()
    } else {
        sha_hex(path.join("").as_bytes())
    }
}

/// Tracked objects of a document: id -> own content (flattened children replaced by a kind
/// marker), in document order, with multiplicity.
pub fn collect_tracked(v: &Value, path: &mut Vec<String>, out: &mut Vec<(String, Value)>) {
    if let Value::Object(o) = v {
        let id = tracked_id(o, path);
        let mut own = Map::new();
        path.push(id.clone());
        for (k, val) in o {
            if k == "_id" {
                continue;
            }
            if k.ends_with(FLAT) {
                path.push(k.clone());
                match val {
                    Value::Array(a) => {
                        own.insert(k.clone(), Value::from("<array>"));
                        for e in a {
                            collect_tracked(e, path, out);
                        }
                    }
                    Value::Object(_) => {
                        own.insert(k.clone(), Value::from("<object>"));
                        collect_tracked(val, path, out);
                    }
                    _ => {
                        own.insert(k.clone(), val.clone());
                    }
                }
                path.pop();
            } else {
                own.insert(k.clone(), val.clone());
            }
        }
        path.pop();
        out.push((id, Value::from(own)));
    }
}

/// Flattened arrays of a document: (descriptor id "^owner@key", element ids in order)
pub fn doc_arrays(v: &Value, path: &mut Vec<String>, out: &mut Vec<(String, Vec<String>)>) {
    if let Value::Object(o) = v {
        let id = tracked_id(o, path);
        path.push(id.clone());
        for (k, val) in o {
            if k.ends_with(FLAT) {
                path.push(k.clone());
                match val {
                    Value::Array(a) => {
                        out.push((
                            format!("^{}@{}", id, k),
                            a.iter()
                                .map(|e| {
                                    e.get("_id").and_then(|x| x.as_str()).unwrap_or("<noid>").to_string()
                                })
                                .collect(),
                        ));
                        for e in a {
                            doc_arrays(e, path, out);
                        }
                    }
                    Value::Object(_) => doc_arrays(val, path, out),
                    _ => {}
                }
                path.pop();
            }
        }
        path.pop();
    }
}

/// `got` equals `exp` except that tracked objects of `got` may carry an added `_id`
/// (equal to the submitted one when one was submitted).
pub fn eq_mod_id(exp: &Value, got: &Value, tracked: bool) -> bool {
    match (exp, got) {
        (Value::Object(e), Value::Object(g)) => {
            if !tracked {
                return exp == got;
            }
            for (k, gv) in g {
                if k == "_id" {
                    if let Some(ev) = e.get("_id") {
                        if ev != gv {
                            return false;
                        }
                    }
                    continue;
                }
                match e.get(k) {
                    None => return false,
                    Some(ev) => {
                        if k.ends_with(FLAT) {
                            if !eq_mod_id(ev, gv, true) {
                                return false;
                            }
                        } else if ev != gv {
                            return false;
                        }
                    }
                }
            }
            e.keys().all(|k| g.contains_key(k))
        }
        (Value::Array(e), Value::Array(g)) => {
            if !tracked {
                return exp == got;
            }
            e.len() == g.len() && e.iter().zip(g.iter()).all(|(a, b)| eq_mod_id(a, b, true))
        }
        _ => exp == got,
    }
}
