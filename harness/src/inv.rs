//! Invariants checked after every step (each only when its property is switched on).
use crate::model::{self, Recs};
use crate::world::*;
use serde_json::Value;
use std::collections::{BTreeMap, BTreeSet};

/// recorded revisions of every object, rebuilt from the raw block files of the applied blocks
/// (found by walking get_delta from the heads) plus the stage export. Independent of RevisionTree.
pub fn reference_records(w: &World, i: usize) -> R<BTreeMap<String, Recs>> {
    let rep = &w.reps[i];
    let applied = applied_walk(&rep.m)?;
    let mut recs: BTreeMap<String, Recs> = BTreeMap::new();
    for name in applied.keys() {
        let key = format!("{}.delta", name);
        let Some(bytes) = rep.store.get(&key) else {
            return viol("C13", format!("applied block {} has no file in storage", name));
        };
        let Some(b) = model::parse_block(name, &bytes) else {
            return viol("C10", format!("applied block {} does not pass the reference validity check", name));
        };
        for (u, r, p) in b.changes {
            recs.entry(u).or_default().entry(r).or_insert(p);
        }
    }
    let st = guard("stage", || rep.m.stage())?;
    if let Ok(Some(st)) = st {
        model::stage_records(&st, &mut recs);
    }
    Ok(recs)
}

pub fn check_c05(w: &mut World, i: usize) -> R<()> {
    let recs = reference_records(w, i)?;
    let m = &w.reps[i].m;
    let objs = guard("get_all_objects", || m.get_all_objects())?;
    let robjs: BTreeSet<String> = recs.keys().cloned().collect();
    if objs != robjs {
        return viol("C05", format!("object set {:?} differs from the objects recorded in blocks+stage {:?}", objs, robjs));
    }
    let mut conf = BTreeSet::new();
    let mut nontrivial = false;
    for (u, rs) in &recs {
        let leaves = model::live_leaves(rs);
        let want_w = leaves.last().cloned();
        let got_w = guard("get_winner", || m.get_winner(u))?.ok();
        if want_w != got_w {
            return viol("C05", format!("winner of {:?}: reference rule gives {:?}, replica reports {:?}; recorded {:?}", u, want_w, got_w, rs));
        }
        let want_c: BTreeSet<String> = leaves.iter().rev().skip(1).cloned().collect();
        let got_c = guard("get_conflicting", || m.get_conflicting(u))?.unwrap_or_default();
        if want_w.is_some() && want_c != got_c {
            return viol("C05", format!("conflicting revisions of {:?}: reference {:?}, replica {:?}", u, want_c, got_c));
        }
        if leaves.len() > 1 {
            conf.insert(u.clone());
            if rs.keys().any(|r| model::rev_is_marker(r) || model::rev_idx(r) >= 10)
                || rs.values().any(|p| p.as_ref().map_or(false, |p| !rs.contains_key(p)))
            {
                nontrivial = true;
            }
        }
        // cross-check with the tree dump (hook)
        if let Some(t) = m.verif_tree(u) {
            let dump: Recs = t.into_iter().map(|(r, p, _)| (r, p)).collect();
            if &dump != rs {
                return viol("C05", format!("revision tree of {:?} differs from the records in blocks+stage: tree {:?} records {:?}", u, dump, rs));
            }
        }
    }
    let got = guard("in_conflict", || m.in_conflict())?;
    if conf != got {
        return viol("C05", format!("in_conflict: reference {:?}, replica {:?}", conf, got));
    }
    if !conf.is_empty() {
        w.bump("c05_states_with_conflict");
    }
    if nontrivial {
        w.bump("c05_nontrivial_tree");
    }
    Ok(())
}

/// own order of one array-descriptor revision, rebuilt with the reference script applier
pub fn leaf_order(m: &melda::melda::Melda, uuid: &str, rev: &str) -> R<Result<Vec<Value>, String>> {
    let mut chain: Vec<Vec<Value>> = vec![];
    let mut cur = Some(rev.to_string());
    let mut steps = 0;
    while let Some(r) = cur {
        steps += 1;
        if steps > 10_000 {
            return Ok(Err("parent chain too long".into()));
        }
        let v = match guard("get_value", || m.get_value(uuid, Some(&r)))? {
            Ok(v) => v,
            Err(e) => return Ok(Err(format!("get_value({},{}) failed: {}", uuid, r, e))),
        };
        let base = if let Some(a) = v.get("A").and_then(|a| a.as_array()) {
            Some(a.clone())
        } else if let Some(p) = v.get("a").and_then(|a| a.as_array()) {
            chain.push(p.clone());
            None
        } else {
            Some(vec![]) // deleted / resolved
        };
        if let Some(mut o) = base {
            for p in chain.iter().rev() {
                if let Err(e) = model::ref_apply(&mut o, p) {
                    return Ok(Err(format!("script of {} does not apply: {}", uuid, e)));
                }
            }
            return Ok(Ok(o));
        }
        cur = match guard("get_parent_revision", || m.get_parent_revision(uuid, &r))? {
            Ok(p) => p,
            Err(e) => return Ok(Err(e.to_string())),
        };
    }
    Ok(Err("no full order at the root of the chain".into()))
}

fn ids_of(v: &[Value]) -> Vec<String> {
    v.iter().filter_map(|x| x.as_str().map(|s| s.to_string())).collect()
}

/// C06 history-level oracle on the document a replica shows
pub fn check_c06(w: &mut World, i: usize) -> R<()> {
    let m = &w.reps[i].m;
    let doc = match read_doc(m)? {
        Ok(d) => d,
        Err(_) => return Ok(()),
    };
    let mut arrs = vec![];
    model::doc_arrays(&doc, &mut vec![], &mut arrs);
    let mut seen = BTreeSet::new();
    for (_, ids) in &arrs {
        for id in ids {
            if !seen.insert(id.clone()) {
                return viol("C06", format!("element {:?} appears more than once in the document {}", id, doc));
            }
        }
    }
    // every tracked object shown anywhere in the document (array element or object field)
    let mut tracked = vec![];
    model::collect_tracked(&doc, &mut vec![], &mut tracked);
    let shown: BTreeSet<String> = tracked.into_iter().map(|(id, _)| id).collect();
    let mut multi = 0;
    let mut nontrivial = 0;
    for (au, ids) in &arrs {
        let Ok(win) = guard("get_winner", || m.get_winner(au))? else { continue };
        let mut leaves: Vec<String> =
            guard("get_conflicting", || m.get_conflicting(au))?.unwrap_or_default().into_iter().collect();
        leaves.push(win.clone());
        let mut orders: Vec<Vec<String>> = vec![];
        for l in &leaves {
            match leaf_order(m, au, l)? {
                Ok(o) => orders.push(ids_of(&o)),
                Err(e) => return viol("C16", format!("version {} of array {} cannot be rebuilt: {}", l, au, e)),
            }
        }
        let mut union: Vec<String> = vec![];
        for o in &orders {
            for e in o {
                if !union.contains(e) {
                    union.push(e.clone());
                }
            }
        }
        for e in &union {
            let live = match guard("get_winner", || m.get_winner(e))? {
                Ok(wr) => !model::rev_is_deleted(&wr),
                Err(_) => false,
            };
            if live && !shown.contains(e) {
                return viol("C06", format!("element {:?} of a concurrent version of {} (object not deleted) is missing from the document {}", e, au, doc));
            }
            if !live && ids.contains(e) {
                return viol("C06", format!("element {:?} whose object is deleted appears in {}", e, au));
            }
        }
        for id in ids {
            if !union.contains(id) {
                return viol("C06", format!("array {} shows {:?} which is in none of its live versions {:?}", au, id, orders));
            }
        }
        let worder = orders.last().unwrap();
        if !model::keeps_relative_order(worder, ids) {
            return viol("C06", format!("winning version order {:?} not kept in {} = {:?}", worder, au, ids));
        }
        if leaves.len() > 1 {
            multi += 1;
            // order of each version preserved when all versions agree pairwise on common elements
            let all_agree = (0..orders.len()).all(|a| (0..orders.len()).all(|b| model::agree_on_common(&orders[a], &orders[b])));
            if all_agree && orders.len() == 2 {
                for o in &orders {
                    if !model::keeps_relative_order(o, ids) {
                        return viol("C06", format!("versions agree on common elements but order {:?} is not kept in {:?}", o, ids));
                    }
                }
            }
            let a: BTreeSet<&String> = orders[0].iter().collect();
            let b: BTreeSet<&String> = worder.iter().collect();
            if a != b && (!a.is_subset(&b) || !all_agree) {
                nontrivial += 1;
            }
        }
    }
    for _ in 0..multi {
        w.bump("c06_multi_leaf_arrays");
    }
    for _ in 0..nontrivial {
        w.bump("c06_nontrivial_arrays");
    }
    Ok(())
}

/// C11: content addressing, append-only, byte identity everywhere
pub fn check_c11(w: &mut World) -> R<()> {
    for i in 0..w.n() {
        let snap = w.reps[i].store.snap();
        let keys: BTreeSet<String> = snap.keys().cloned().collect();
        if let Some(k) = w.prev_keys[i].iter().find(|k| !keys.contains(*k)) {
            return viol("C11", format!("item {} disappeared from replica {}", k, i));
        }
        // a write that met a half-written file placed by the harness is not a write conflict of the replica
        let torn_here: BTreeSet<String> = w.torn.iter().filter(|(x, _)| *x == i).map(|(_, k)| k.clone()).collect();
        let cw: Vec<String> = w.reps[i].store.with(|s| {
            s.conflicting_writes.retain(|k| !torn_here.contains(k));
            s.conflicting_writes.clone()
        });
        if let Some(k) = cw.first() {
            return viol("C11", format!("replica {} attempted to write different bytes to existing item {}", i, k));
        }
        for (k, v) in &snap {
            if w.torn.contains(&(i, k.clone())) {
                continue; // placed half-written by the harness on this replica
            }
            if let Some(old) = w.universe.get(k) {
                if old != v {
                    let show = |b: &Vec<u8>| format!("{} bytes {:?}", b.len(), String::from_utf8_lossy(&b[..b.len().min(300)]));
                    return viol("C11", format!("item {} has different bytes on replica {} than elsewhere/earlier:\n {}\n {}", k, i, show(old), show(v)));
                }
                continue;
            }
            if let Some(stem) = k.strip_suffix(".pack") {
                if model::sha_hex(v) != stem {
                    return viol("C11", format!("pack {} is not named by the SHA-256 of its bytes", k));
                }
            } else if let Some(stem) = k.strip_suffix(".delta") {
                let Some((idx, h)) = stem.split_once('-') else {
                    return viol("C11", format!("block name {} malformed", k));
                };
                if model::sha_hex(v) != h {
                    return viol("C11", format!("block {} is not named by the SHA-256 of its bytes: {}", k, String::from_utf8_lossy(v)));
                }
                let parsed: Value = serde_json::from_slice(v).unwrap_or(Value::Null);
                let maxp = parsed
                    .get("p")
                    .and_then(|p| p.as_array())
                    .map(|a| a.iter().filter_map(|x| x.as_str()).map(model::rev_idx).max().unwrap_or(0))
                    .unwrap_or(0);
                if idx.parse::<u64>().ok() != Some(maxp + 1) {
                    return viol("C11", format!("block {} index is not 1 + highest parent index ({})", k, maxp));
                }
                if parsed.get("i").map_or(false, |i| format!("{}", i).len() > 40) {
                    w.bump("c11_rich_info_blocks");
                }
            } else {
                return viol("C11", format!("replica {} wrote an item that is neither block nor pack: {}", i, k));
            }
            w.universe.insert(k.clone(), v.clone());
        }
        w.prev_keys[i] = keys;
    }
    Ok(())
}

/// C13: graph well-formedness on one replica
pub fn check_c13(w: &mut World, i: usize) -> R<()> {
    let rep = &w.reps[i];
    let applied = applied_hook(&rep.m);
    let walked = applied_walk(&rep.m)?;
    let heads = anchors_str(&rep.m)?;
    let mut blocks = BTreeMap::new();
    for name in &applied {
        let Some(bytes) = rep.store.get(&format!("{}.delta", name)) else {
            return viol("C13", format!("applied block {} not in storage", name));
        };
        let Some(b) = model::parse_block(name, &bytes) else {
            return viol("C13", format!("applied block {} fails the reference parser", name));
        };
        blocks.insert(name.clone(), b);
    }
    for (n, b) in &blocks {
        for p in &b.parents {
            if !applied.contains(p) {
                return viol("C13", format!("applied set not ancestor-closed: {} applied, parent {} not", n, p));
            }
            if model::rev_idx(p) >= b.idx {
                return viol("C13", format!("block {} index does not exceed parent {}", n, p));
            }
        }
    }
    let mut want: BTreeSet<String> = applied.clone();
    for b in blocks.values() {
        for p in &b.parents {
            want.remove(p);
        }
    }
    if want != heads {
        return viol("C13", format!("heads {:?} are not the applied blocks without applied children {:?}", heads, want));
    }
    let wk: BTreeSet<String> = walked.keys().cloned().collect();
    if wk != applied {
        return viol("C13", format!("blocks reachable from the heads {:?} differ from the applied set {:?}", wk, applied));
    }
    for (n, (parents, packs, info)) in &walked {
        let b = &blocks[n];
        if &b.parents != parents || &b.packs != packs {
            return viol("C13", format!("get_delta({}) parents/packs {:?}/{:?} differ from the raw file {:?}/{:?}", n, parents, packs, b.parents, b.packs));
        }
        let raw_info = b.info.as_ref().map(|i| serde_json::to_string(i).unwrap()).unwrap_or_else(|| "-".into());
        if &raw_info != info {
            return viol("C13", format!("get_delta({}) info {} differs from the raw file {}", n, info, raw_info));
        }
        if let Some(sub) = w.infos.get(n) {
            if sub != info {
                return viol("C13", format!("commit metadata of {} reads back as {} but {} was submitted", n, info, sub));
            }
        }
    }
    if heads.len() > 1 {
        w.bump("c13_multi_head_states");
    }
    let known = w.reps[i].m.verif_block_status().len();
    if known > applied.len() {
        w.bump("c13_heads_with_held_back");
    }
    Ok(())
}

/// C19 (history level): every revision string the replica hands out parses and prints back
pub fn check_c19(w: &mut World, i: usize) -> R<()> {
    let m = &w.reps[i].m;
    let objs = guard("get_all_objects", || m.get_all_objects())?;
    let mut n = 0u64;
    for o in &objs {
        let mut revs: Vec<String> = guard("get_conflicting", || m.get_conflicting(o))?.unwrap_or_default().into_iter().collect();
        if let Ok(wr) = guard("get_winner", || m.get_winner(o))? {
            revs.push(wr);
        }
        if let Some(t) = m.verif_tree(o) {
            for (r, p, _) in t {
                // the identifier is a pure function of the content digest and of the parent's identifier
                let want = model::child_rev(model::rev_digest(&r), p.as_deref());
                if want != r {
                    return viol("C19", format!("revision {} of {:?} is recorded with parent {:?}; the identifier derived from its digest and that parent is {}", r, o, p, want));
                }
                revs.push(r);
                if let Some(p) = p {
                    revs.push(p);
                }
            }
        }
        for r in revs {
            n += 1;
            let back = melda::verif_hooks::Revision::from(&r).map(|x| x.to_string()).map_err(|e| e.to_string());
            if back.as_deref() != Ok(r.as_str()) {
                return viol("C19", format!("revision string {:?} of {:?} parses and prints back as {:?}", r, o, back));
            }
            match model::Rev::parse(&r) {
                Some(x) if x.print() == r => {}
                _ => return viol("C19", format!("revision string {:?} is not in canonical form", r)),
            }
        }
    }
    *w.cnt.entry("c19_revision_strings_checked").or_insert(0) += n;
    Ok(())
}

/// C08: every getter returns (panics are turned into Fail::Panic by the guards)
pub fn check_c08_getters(w: &mut World, i: usize) -> R<()> {
    let m = &w.reps[i].m;
    let _ = obs_full(m)?;
    let _ = guard("stage", || m.stage())?;
    let objs = guard("get_all_objects", || m.get_all_objects())?;
    for o in &objs {
        let _ = guard("get_value", || m.get_value(o, None).map(|_| ()))?;
        if let Ok(wr) = guard("get_winner", || m.get_winner(o))? {
            let _ = guard("get_value", || m.get_value(o, Some(&wr)).map(|_| ()))?;
            let _ = guard("get_parent_revision", || m.get_parent_revision(o, &wr))?;
        }
    }
    let _ = guard("get_value_unknown", || m.get_value("no-such-object", None).map(|_| ()))?;
    let _ = guard("get_winner_unknown", || m.get_winner("no-such-object"))?;
    let _ = guard("read_root", || m.read(Some("no-such-root")).map(|_| ()))?;
    Ok(())
}

/// C14 bookkeeping: remember (value, parent) of every revision when first seen; later sightings must agree
pub fn record_revs(w: &mut World, i: usize) -> R<()> {
    let rep = &mut w.reps[i];
    let m = &rep.m;
    let objs = guard("get_all_objects", || m.get_all_objects())?;
    for o in &objs {
        let mut starts: Vec<String> = guard("get_conflicting", || m.get_conflicting(o))?.unwrap_or_default().into_iter().collect();
        if let Ok(wr) = guard("get_winner", || m.get_winner(o))? {
            starts.push(wr);
        }
        for s in starts {
            let mut cur = Some(s);
            let mut steps = 0;
            while let Some(r) = cur {
                steps += 1;
                if steps > 5000 {
                    break;
                }
                let key = (o.clone(), r.clone());
                let val = guard("get_value", || m.get_value(o, Some(&r)))?;
                let par = guard("get_parent_revision", || m.get_parent_revision(o, &r))?;
                let (val, par) = match (val, par) {
                    (Ok(v), Ok(p)) => (serde_json::to_string(&v).unwrap(), p),
                    (Err(e), _) => {
                        return viol("C14", format!("revision {} of {:?} belongs to the loaded history but its value is not retrievable: {}", r, o, e))
                    }
                    (_, Err(e)) => return viol("C14", format!("parent of {} of {:?} not retrievable: {}", r, o, e)),
                };
                if let Some((v0, p0)) = rep.rev_seen.get(&key) {
                    if *v0 != val || *p0 != par {
                        return viol("C14", format!("revision {} of {:?} now has value/parent {} / {:?}, first seen as {} / {:?}", r, o, val, par, v0, p0));
                    }
                    // chain below was verified when first seen, but re-walk anyway (cheap)
                } else {
                    rep.rev_seen.insert(key, (val, par.clone()));
                }
                cur = par;
            }
        }
    }
    Ok(())
}
