//! The world of replicas: observation, guards, counters. The op interpreter is in ops.rs.
use crate::model::{self, Closure};
use crate::store::{Ad, HStore};
use melda::melda::{DeltaId, Melda};
use serde_json::Value;
use std::collections::{BTreeMap, BTreeSet};
use std::sync::atomic::{AtomicU64, Ordering};
use std::sync::Mutex;

#[derive(Debug, Clone)]
pub enum Fail {
    /// the oracle of property `prop` was contradicted
    Violation { prop: &'static str, msg: String },
    /// a melda call panicked (violation for C08, abort of the case elsewhere)
    Panic { op: String, msg: String },
}

pub type R<T> = Result<T, Fail>;

pub fn viol<T>(prop: &'static str, msg: String) -> R<T> {
    Err(Fail::Violation { prop, msg })
}

pub static PANIC_MSGS: Mutex<Vec<String>> = Mutex::new(Vec::new());
/// milliseconds since process start at which the current melda call began (0 = idle)
pub static OP_START: AtomicU64 = AtomicU64::new(0);
pub static OP_NAME: Mutex<String> = Mutex::new(String::new());
pub fn now_ms() -> u64 {
    use std::sync::OnceLock;
    static T0: OnceLock<std::time::Instant> = OnceLock::new();
    T0.get_or_init(std::time::Instant::now).elapsed().as_millis() as u64 + 1
}

pub fn install_panic_hook() {
    std::panic::set_hook(Box::new(|info| {
        let msg = if let Some(s) = info.payload().downcast_ref::<&str>() {
            s.to_string()
        } else if let Some(s) = info.payload().downcast_ref::<String>() {
            s.clone()
        } else {
            "panic".to_string()
        };
        let loc = info.location().map(|l| format!("{}:{}", l.file(), l.line())).unwrap_or_default();
        if let Ok(mut v) = PANIC_MSGS.lock() {
            v.push(format!("{} @ {}", msg, loc));
        }
    }));
}

/// run a melda call; a panic becomes Fail::Panic
pub fn guard<T>(op: &str, f: impl FnOnce() -> T) -> R<T> {
    if let Ok(mut n) = OP_NAME.lock() {
        n.clear();
        n.push_str(op);
    }
    OP_START.store(now_ms(), Ordering::SeqCst);
    let r = std::panic::catch_unwind(std::panic::AssertUnwindSafe(f));
    OP_START.store(0, Ordering::SeqCst);
    match r {
        Ok(v) => Ok(v),
        Err(_) => {
            let msg = PANIC_MSGS.lock().map(|mut v| v.drain(..).collect::<Vec<_>>().join(" | ")).unwrap_or_default();
            Err(Fail::Panic { op: op.to_string(), msg })
        }
    }
}

#[derive(Clone, PartialEq, Eq, Debug)]
pub struct Obs {
    pub objects: BTreeSet<String>,
    pub winners: BTreeMap<String, String>,
    pub conflicts: BTreeMap<String, BTreeSet<String>>,
    pub in_conflict: BTreeSet<String>,
    pub doc: String,
}

#[derive(Clone, PartialEq, Eq, Debug)]
pub struct ObsFull {
    pub core: Obs,
    pub staging: bool,
    pub heads: BTreeSet<String>,
    /// applied block -> (parents, packs, info as canonical JSON)
    pub blocks: BTreeMap<String, (BTreeSet<String>, BTreeSet<String>, String)>,
}

pub fn first_diff(a: &Obs, b: &Obs) -> String {
    if a.objects != b.objects {
        return format!(
            "objects differ: only-left {:?} only-right {:?}",
            a.objects.difference(&b.objects).collect::<Vec<_>>(),
            b.objects.difference(&a.objects).collect::<Vec<_>>()
        );
    }
    for (k, v) in &a.winners {
        if b.winners.get(k) != Some(v) {
            return format!("winner of {:?}: {:?} vs {:?}", k, v, b.winners.get(k));
        }
    }
    if a.conflicts != b.conflicts {
        return format!("conflict sets differ: {:?} vs {:?}", a.conflicts, b.conflicts);
    }
    if a.in_conflict != b.in_conflict {
        return format!("in_conflict differs: {:?} vs {:?}", a.in_conflict, b.in_conflict);
    }
    if a.doc != b.doc {
        return format!("document differs:\n  left  {}\n  right {}", a.doc, b.doc);
    }
    "equal".into()
}

pub fn first_diff_full(a: &ObsFull, b: &ObsFull) -> String {
    if a.core != b.core {
        return first_diff(&a.core, &b.core);
    }
    if a.staging != b.staging {
        return format!("has_staging {} vs {}", a.staging, b.staging);
    }
    if a.heads != b.heads {
        return format!("heads {:?} vs {:?}", a.heads, b.heads);
    }
    if a.blocks != b.blocks {
        let ka: BTreeSet<_> = a.blocks.keys().collect();
        let kb: BTreeSet<_> = b.blocks.keys().collect();
        if ka != kb {
            return format!(
                "applied blocks differ: only-left {:?} only-right {:?}",
                ka.difference(&kb).collect::<Vec<_>>(),
                kb.difference(&ka).collect::<Vec<_>>()
            );
        }
        for (k, v) in &a.blocks {
            if b.blocks.get(k) != Some(v) {
                return format!("block {} reads back differently: {:?} vs {:?}", k, v, b.blocks.get(k));
            }
        }
    }
    "equal".into()
}

pub fn read_doc(m: &Melda) -> R<Result<Value, String>> {
    let r = guard("read", || m.read(None))?;
    Ok(match r {
        Ok(d) => Ok(Value::from(d)),
        Err(e) => Err(e.to_string()),
    })
}

pub fn obs(m: &Melda) -> R<Obs> {
    let objects = guard("get_all_objects", || m.get_all_objects())?;
    let mut winners = BTreeMap::new();
    let mut conflicts = BTreeMap::new();
    for o in &objects {
        let w = guard("get_winner", || m.get_winner(o))?;
        winners.insert(o.clone(), w.unwrap_or_else(|e| format!("ERR {}", e)));
        let c = guard("get_conflicting", || m.get_conflicting(o))?;
        if let Ok(c) = c {
            if !c.is_empty() {
                conflicts.insert(o.clone(), c);
            }
        }
    }
    let in_conflict = guard("in_conflict", || m.in_conflict())?;
    let doc = match read_doc(m)? {
        Ok(v) => serde_json::to_string(&v).unwrap(),
        Err(e) => format!("ERR {}", e),
    };
    Ok(Obs { objects, winners, conflicts, in_conflict, doc })
}

pub fn anchors_str(m: &Melda) -> R<BTreeSet<String>> {
    Ok(guard("get_anchors", || m.get_anchors())?.iter().map(|a| a.to_string()).collect())
}

/// applied blocks found by walking get_delta from the heads (no hook)
pub fn applied_walk(m: &Melda) -> R<BTreeMap<String, (BTreeSet<String>, BTreeSet<String>, String)>> {
    let mut out = BTreeMap::new();
    let mut q: Vec<DeltaId> = guard("get_anchors", || m.get_anchors())?.into_iter().collect();
    while let Some(d) = q.pop() {
        let name = d.to_string();
        if out.contains_key(&name) {
            continue;
        }
        let delta = guard("get_delta", || m.get_delta(&d))?;
        match delta {
            Ok(Some(dl)) => {
                let parents: BTreeSet<String> =
                    dl.parents.as_ref().map(|p| p.iter().map(|x| x.to_string()).collect()).unwrap_or_default();
                let packs: BTreeSet<String> = dl.packs.clone().unwrap_or_default();
                let info = dl.info.as_ref().map(|i| serde_json::to_string(i).unwrap()).unwrap_or_else(|| "-".into());
                if let Some(p) = &dl.parents {
                    q.extend(p.iter().cloned());
                }
                out.insert(name, (parents, packs, info));
            }
            _ => {
                out.insert(name, (BTreeSet::new(), BTreeSet::new(), "<missing>".into()));
            }
        }
    }
    Ok(out)
}

pub fn obs_full(m: &Melda) -> R<ObsFull> {
    Ok(ObsFull {
        core: obs(m)?,
        staging: guard("has_staging", || m.has_staging())?,
        heads: anchors_str(m)?,
        blocks: applied_walk(m)?,
    })
}

pub fn applied_hook(m: &Melda) -> BTreeSet<String> {
    m.verif_block_status().into_iter().filter(|(_, s)| *s == "applied").map(|(k, _)| k).collect()
}

pub fn open(ad: Ad) -> R<Result<Melda, String>> {
    Ok(guard("new", || Melda::new(ad))?.map_err(|e| e.to_string()))
}

pub fn parse_heads(h: &BTreeSet<String>) -> BTreeSet<DeltaId> {
    h.iter().filter_map(|s| DeltaId::from(s).ok()).collect()
}

pub struct Replica {
    pub store: HStore,
    pub m: Melda,
    pub traveled: bool,
    /// (head set, core observation) recorded at quiescent moments
    pub heads_hist: Vec<(BTreeSet<String>, Obs)>,
    /// last quiescent observation (after commit / refresh / reload / unstage / reopen / travel)
    pub quiescent: Option<ObsFull>,
    /// (uuid, revision) -> (value, parent) as first seen
    pub rev_seen: BTreeMap<(String, String), (String, Option<String>)>,
    /// the document this replica submitted last through update()
    pub last_doc: Option<Value>,
}

pub type Counters = BTreeMap<&'static str, u64>;

pub struct World {
    pub reps: Vec<Replica>,
    pub cnt: Counters,
    pub on: BTreeSet<&'static str>,
    pub log: Vec<String>,
    /// id -> canonical own contents ever submitted through update (all replicas)
    pub submitted: BTreeMap<String, BTreeSet<String>>,
    /// block name -> info JSON submitted at commit
    pub infos: BTreeMap<String, String>,
    /// all items ever seen in any store: key -> bytes (C11 cross-replica byte identity)
    pub universe: BTreeMap<String, Vec<u8>>,
    pub prev_keys: Vec<BTreeSet<String>>,
    /// (replica, item name): items the harness placed in a damaged (half-written) form, as an
    /// interrupted file-synchronisation tool would; exempt from the C11 checks on that replica only
    pub torn: BTreeSet<(usize, String)>,
}

impl World {
    pub fn new(n: usize, perms: &[Option<u64>], on: &[&'static str]) -> R<World> {
        let mut reps = vec![];
        for i in 0..n {
            let store = HStore::new();
            store.with(|s| s.perm = perms.get(i).cloned().flatten());
            let m = match open(store.ad())? {
                Ok(m) => m,
                Err(e) => return viol("C08", format!("cannot open empty replica: {}", e)),
            };
            reps.push(Replica {
                store,
                m,
                traveled: false,
                heads_hist: vec![],
                quiescent: None,
                rev_seen: BTreeMap::new(),
                last_doc: None,
            });
        }
        Ok(World {
            reps,
            cnt: Counters::new(),
            on: on.iter().cloned().collect(),
            log: vec![],
            submitted: BTreeMap::new(),
            infos: BTreeMap::new(),
            universe: BTreeMap::new(),
            prev_keys: vec![BTreeSet::new(); n],
            torn: BTreeSet::new(),
        })
    }
    pub fn is(&self, p: &str) -> bool {
        self.on.contains(p)
    }
    pub fn bump(&mut self, k: &'static str) {
        *self.cnt.entry(k).or_insert(0) += 1;
    }
    pub fn n(&self) -> usize {
        self.reps.len()
    }
    pub fn rix(&self, r: u8) -> usize {
        ((r as usize) * self.n()) >> 8
    }
    /// a peer different from i
    pub fn peer(&self, i: usize, from: u8) -> usize {
        let n = self.n();
        if n < 2 {
            return i;
        }
        let k = ((from as usize) * (n - 1)) >> 8;
        (i + 1 + k) % n
    }
    pub fn closure_of(&self, i: usize) -> Closure {
        model::closure(&self.reps[i].store.snap())
    }
    /// blocks that are complete in storage but not applied by the live instance
    pub fn pending(&self, i: usize) -> BTreeSet<String> {
        let clo = self.closure_of(i);
        let live = applied_hook(&self.reps[i].m);
        clo.applied.keys().filter(|k| !live.contains(*k)).cloned().collect()
    }
    pub fn fresh(&self, i: usize) -> R<Result<Melda, String>> {
        open(self.reps[i].store.ad())
    }
    pub fn record_heads(&mut self, i: usize) -> R<()> {
        let rep = &mut self.reps[i];
        if guard("has_staging", || rep.m.has_staging())? {
            return Ok(());
        }
        let h = anchors_str(&rep.m)?;
        let o = obs(&rep.m)?;
        if !h.is_empty() && !rep.heads_hist.iter().any(|(x, _)| *x == h) {
            rep.heads_hist.push((h, o));
        }
        Ok(())
    }
    pub fn set_quiescent(&mut self, i: usize) -> R<()> {
        let o = obs_full(&self.reps[i].m)?;
        self.reps[i].quiescent = Some(o);
        Ok(())
    }
}
