//! Runs the libFuzzer target (built by check.sh for the thorough tier) as one part of a check.
use crate::runner::{Violation, WorkerResult};
use std::process::Command;

fn root() -> String {
    std::env::var("VERIF_ROOT").unwrap_or_else(|_| "/verif".to_string())
}

pub fn run(prop: &str, runs: u32, seed: u64, shard: u64) -> WorkerResult {
    let mut r = WorkerResult { part: "fuzz".into(), ..Default::default() };
    let fuzz_bin = format!("{}/fuzz/target/x86_64-unknown-linux-gnu/release/history", root());
    if !std::path::Path::new(&fuzz_bin).exists() {
        r.notes.push("fuzz target not built (cargo +nightly fuzz build failed or was skipped): part skipped".into());
        return r;
    }
    let scratch = std::env::var("VERIF_SCRATCH").unwrap_or_else(|_| format!("{}/.scratch/misc", root()));
    let dir = format!("{}/fuzz-{}-{}", scratch, prop, shard);
    let corpus = format!("{}/corpus", dir);
    let _ = std::fs::create_dir_all(&corpus);
    let mut initial = 0;
    if let Ok(rd) = std::fs::read_dir(format!("{}/fuzz/seeds", root())) {
        for e in rd.flatten() {
            if std::fs::copy(e.path(), format!("{}/{}", corpus, e.file_name().to_string_lossy())).is_ok() {
                initial += 1;
            }
        }
    }
    let out = Command::new(&fuzz_bin)
        .arg(&corpus)
        .args([&format!("-runs={}", runs), &format!("-seed={}", (seed % 0xffff_fff0) + 1), "-len_control=0", "-max_len=4096", "-print_final_stats=1", &format!("-artifact_prefix={}/", dir)])
        .env("FUZZ_PROP", prop)
        .env("RAYON_NUM_THREADS", "2")
        .output();
    let Ok(out) = out else {
        r.notes.push("could not start the fuzz target".into());
        return r;
    };
    let err = String::from_utf8_lossy(&out.stderr).to_string();
    let executed = err.lines().find_map(|l| l.strip_prefix("stat::number_of_executed_units:").map(|x| x.trim().parse::<u64>().unwrap_or(0))).unwrap_or(0);
    r.evaluations = executed;
    let now = std::fs::read_dir(&corpus).map(|d| d.count()).unwrap_or(0);
    r.nontrivial_count = now.saturating_sub(initial) as u64;
    r.counters.insert("fuzz_corpus_entries".into(), now as u64);
    if !out.status.success() {
        // a crash artifact = a violating input; decode and re-run it through the normal replay path
        let art = std::fs::read_dir(&dir).ok().and_then(|d| d.flatten().map(|e| e.path()).find(|p| p.file_name().map_or(false, |n| n.to_string_lossy().starts_with("crash-"))));
        if let Some(a) = art {
            let bytes = std::fs::read(&a).unwrap_or_default();
            let mut case = crate::fuzzdec::decode_case(&bytes);
            if let Some(cfg) = crate::props::hist_cfg(prop, false) {
                if !cfg.with_fin {
                    case.fin = None;
                }
            }
            let cv = serde_json::to_value(&case).unwrap_or_default();
            let rep = crate::parts::replay_part(prop, "hist", &cv);
            let (p, m, log) = rep.unwrap_or_else(|| {
                let msg = err.lines().find(|l| l.starts_with("VIOLATION")).unwrap_or("fuzz target aborted; the decoded case did not reproduce in replay").to_string();
                (prop.to_string(), msg, vec![])
            });
            r.violation = Some(Violation { prop: p, msg: m, case: cv, log, part: "hist".into(), seed, kind: "fuzz".into() });
        } else {
            r.notes.push(format!("fuzz target ended with {:?} without a crash artifact: {}", out.status.code(), err.lines().rev().take(3).collect::<Vec<_>>().join(" / ")));
        }
    }
    if r.samples.is_empty() {
        if let Some(e) = std::fs::read_dir(&corpus).ok().and_then(|d| d.flatten().last()) {
            if let Ok(b) = std::fs::read(e.path()) {
                r.samples.push(serde_json::to_value(crate::fuzzdec::decode_case(&b)).unwrap_or_default());
            }
        }
    }
    let _ = std::fs::remove_dir_all(&dir);
    r
}
