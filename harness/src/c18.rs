//! C18: results do not depend on the worker-pool size, hash-table iteration order, listing order
//! or cache capacities. One generated history is executed in several child processes (the pool size
//! and the cache capacities are read from the environment once per process) and the sequences of
//! per-step state digests must be identical.
use crate::gen::{self, Mix};
use crate::ops2::FinPlan;
use crate::props::Case;
use crate::runner::CaseRes;
use crate::world::*;
use proptest::prelude::*;
use std::io::Write;
use std::process::{Command, Stdio};

pub fn strategy(thorough: bool) -> BoxedStrategy<Case> {
    // no raw partial file copies and no time travel: their selectors address items / head sets by
    // block identifier order, which legitimately varies from run to run
    let mix = Mix { update: 10, commit: 6, meldrefresh: 7, meld: 1, refresh: 1, reload: 1, reopen: 1, filecopy: 0, resolve: 3, unstage: 1, stagert: 1, snapshot: 1, timetravel: 0, lowlevel: 0, mergecommit: 2, churn: 1, faultycommit: 0, foreign: 0, faultymeld: 0, snaprace: 2, tornblock: 0, rich: false, rich_info: false };
    let len = if thorough { 60 } else { 40 };
    (2u8..=3, gen::history(&mix, len), crate::props::fin_plan(3))
        .prop_map(|(n, ops, mut fin)| {
            fin.deliveries.retain(|d| !matches!(d, gen::Op::FileCopy { .. }));
            Case { n, perms: vec![None; 3], ops, fin: Some(fin) }
        })
        .boxed()
}

/// child: execute the case, print one digest per step
pub fn exec_case(case: &Case, perm: Option<u64>) -> Result<Vec<String>, String> {
    let perms: Vec<Option<u64>> = (0..3).map(|i| perm.map(|p| p.wrapping_add(i))).collect();
    let mut w = World::new(case.n as usize, &perms, &[]).map_err(|e| format!("{:?}", e))?;
    let mut out = vec![];
    let digest = |w: &World| -> Result<String, String> {
        let mut s = String::new();
        for r in &w.reps {
            let o = obs(&r.m).map_err(|e| format!("{:?}", e))?;
            s.push_str(&format!("{:?}|{:?}|{:?}|{}#", o.objects, o.winners, o.conflicts, o.doc));
        }
        Ok(crate::model::sha_hex(s.as_bytes())[..16].to_string())
    };
    for op in &case.ops {
        w.step(op).map_err(|e| format!("{:?}", e))?;
        out.push(digest(&w)?);
    }
    if let Some(f) = &case.fin {
        w.converge(f).map_err(|e| format!("{:?}", e))?;
        out.push(digest(&w)?);
    }
    let big = w.cnt.get("updates_touching_8_objects").cloned().unwrap_or(0);
    let r3 = w.cnt.get("refresh_applying_3_blocks").cloned().unwrap_or(0);
    out.push(format!("meta:{}:{}", big, r3));
    Ok(out)
}

pub fn configs(thorough: bool) -> Vec<(String, String, Option<u64>)> {
    // (RAYON_NUM_THREADS, cache capacity, listing permutation seed)
    let mut v = vec![];
    let threads: Vec<&str> = if thorough { vec!["1", "2", "3", "4", "5", "6", "7", "8", "9", "10", "11", "12", "13", "14", "15", "16"] } else { vec!["1", "2", "4", "16"] };
    let caps = ["1", "2", "16"];
    for (k, t) in threads.iter().enumerate() {
        v.push((t.to_string(), caps[k % 3].to_string(), if k % 2 == 0 { None } else { Some(k as u64 * 7919 + 1) }));
    }
    // same configuration twice (fresh hash seeds), and extremes crossed
    v.push(("2".into(), "16".into(), None));
    v.push(("2".into(), "16".into(), None));
    v.push(("16".into(), "1".into(), Some(12345)));
    v.push(("1".into(), "16".into(), Some(999)));
    if thorough {
        for t in ["4", "8", "16"] {
            for c in ["1", "3"] {
                v.push((t.into(), c.into(), Some(77)));
            }
        }
    }
    v
}

pub fn run(case: &Case, thorough: bool) -> CaseRes {
    let exe = std::env::current_exe().unwrap();
    let input = serde_json::to_vec(case).unwrap();
    let mut traces: Vec<(String, Result<Vec<String>, String>)> = vec![];
    let cfgs = configs(thorough);
    // run children in small batches to keep the core count honest (workers are already sharded)
    for (t, c, p) in &cfgs {
        let mut cmd = Command::new(&exe);
        cmd.arg("exec-case");
        if let Some(p) = p {
            cmd.arg(p.to_string());
        }
        cmd.env("RAYON_NUM_THREADS", t).env("MELDA_DATA_CACHE_CAP", c).env("MELDA_ARRAYDESCRIPTORS_CACHE_CAP", c);
        cmd.stdin(Stdio::piped()).stdout(Stdio::piped()).stderr(Stdio::null());
        let name = format!("threads={} caches={} listing={:?}", t, c, p);
        // a child that produces no result at all (spawn failure, killed) says nothing about the library:
        // retry, and if it stays silent the case is inconclusive
        let mut r: Result<Vec<String>, String> = Err("no-result".into());
        for _attempt in 0..3 {
            r = (|| -> Result<Vec<String>, String> {
                let mut ch = cmd.spawn().map_err(|_| "no-result".to_string())?;
                ch.stdin.take().unwrap().write_all(&input).map_err(|_| "no-result".to_string())?;
                let out = ch.wait_with_output().map_err(|_| "no-result".to_string())?;
                let v: serde_json::Value = serde_json::from_slice(&out.stdout).map_err(|_| "no-result".to_string())?;
                if let Some(e) = v.get("error").and_then(|e| e.as_str()) {
                    return Err(e.to_string());
                }
                Ok(v.get("trace").and_then(|t| t.as_array()).map(|a| a.iter().filter_map(|x| x.as_str().map(|s| s.to_string())).collect()).unwrap_or_default())
            })();
            if r.as_ref().err().map(|e| e.as_str()) != Some("no-result") {
                break;
            }
        }
        traces.push((name, r));
    }
    let mut cnt = Counters::new();
    let mut log = vec![];
    let mut res: R<()> = Ok(());
    let mut nontrivial = false;
    if traces.iter().any(|(_, t)| t.as_ref().err().map(|e| e.as_str()) == Some("no-result")) {
        return CaseRes { counters: cnt, nontrivial: false, result: Err(Fail::Panic { op: "exec-case".into(), msg: "a child process produced no result (environment), case skipped".into() }), log, steps: 0 };
    }
    let base = traces[0].clone();
    match &base.1 {
        Err(e) => {
            // the case itself fails to execute (panic etc.): not this property's concern
            log.push(format!("case not executable under {}: {}", base.0, e));
            res = Err(Fail::Panic { op: "exec-case".into(), msg: e.clone() });
        }
        Ok(b) => {
            if let Some(meta) = b.last() {
                let f: Vec<&str> = meta.split(':').collect();
                if f.len() == 3 && (f[1] != "0" || f[2] != "0") {
                    nontrivial = true;
                }
                if f.len() == 3 && f[1] != "0" {
                    *cnt.entry("histories_with_update_of_8_objects").or_insert(0) += 1;
                }
                if f.len() == 3 && f[2] != "0" {
                    *cnt.entry("histories_with_refresh_of_3_blocks").or_insert(0) += 1;
                }
            }
            for (name, t) in &traces[1..] {
                match t {
                    Err(e) => {
                        res = viol("C18", format!("the history executes under [{}] but fails under [{}]: {}", base.0, name, e));
                        break;
                    }
                    Ok(t) => {
                        // the last entry is a classification counter (how many blocks a refresh applied at
                        // once); block identifiers, and with them the number of distinct blocks, vary
                        // legitimately from run to run, so it is not part of the comparison
                        let strip = |v: &Vec<String>| -> Vec<String> { v.iter().filter(|x| !x.starts_with("meta:")).cloned().collect() };
                        let (t, b) = (&strip(t), &strip(b));
                        if t != b {
                            let k = b.iter().zip(t.iter()).position(|(x, y)| x != y).unwrap_or(b.len().min(t.len()));
                            res = viol("C18", format!("state digests differ at step {} ({:?}) between [{}] and [{}]", k, case.ops.get(k).map(|o| o.kind()), base.0, name));
                            break;
                        }
                    }
                }
            }
        }
    }
    *cnt.entry("runs_compared").or_insert(0) += traces.len() as u64;
    CaseRes { counters: cnt, nontrivial, result: res, log, steps: case.ops.len() * traces.len() }
}

#[allow(dead_code)]
pub fn unused(_: FinPlan) {}
