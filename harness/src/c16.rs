//! C16 history level: chains of successive versions of flattened arrays on one replica, run in worker
//! processes with different cache capacities (environment). After every step read() == submitted; every
//! stored version (walking the parent chain) rebuilt with the reference applier == the array submitted
//! when that revision was created; the same after reopening.
use crate::inv::leaf_order;
use crate::runner::CaseRes;
use crate::world::*;
use proptest::collection::vec;
use proptest::prelude::*;
use serde::{Deserialize, Serialize};
use serde_json::{json, Value};
use std::collections::BTreeMap;

#[derive(Clone, Debug, Serialize, Deserialize)]
pub enum ChainOp {
    Insert { arr: bool, pos: u16, id: u16 },
    Remove { arr: bool, pos: u16 },
    Rotate { arr: bool },
    Reverse { arr: bool },
    Empty { arr: bool },
    Refill { arr: bool, n: u8 },
    MoveAcross { pos: u16, to: u16 },
    RemoveKey { arr: bool },
    Same,
    /// many elements at once: arrays longer than 100 (size thresholds in the diff / patch code)
    Bulk { arr: bool, n: u8 },
    Commit,
    Reopen,
    Snapshot,
}

pub fn strategy(thorough: bool) -> BoxedStrategy<Vec<ChainOp>> {
    let op = prop_oneof![
        6 => (any::<bool>(), any::<u16>(), any::<u16>()).prop_map(|(arr, pos, id)| ChainOp::Insert { arr, pos, id }),
        6 => (any::<bool>(), any::<u16>()).prop_map(|(arr, pos)| ChainOp::Remove { arr, pos }),
        2 => any::<bool>().prop_map(|arr| ChainOp::Rotate { arr }),
        1 => any::<bool>().prop_map(|arr| ChainOp::Reverse { arr }),
        1 => any::<bool>().prop_map(|arr| ChainOp::Empty { arr }),
        1 => (any::<bool>(), 1u8..6).prop_map(|(arr, n)| ChainOp::Refill { arr, n }),
        3 => (any::<u16>(), any::<u16>()).prop_map(|(pos, to)| ChainOp::MoveAcross { pos, to }),
        1 => any::<bool>().prop_map(|arr| ChainOp::RemoveKey { arr }),
        1 => Just(ChainOp::Same),
        1 => (any::<bool>(), 90u8..150).prop_map(|(arr, n)| ChainOp::Bulk { arr, n }),
        3 => Just(ChainOp::Commit),
        2 => Just(ChainOp::Reopen),
        1 => Just(ChainOp::Snapshot),
    ];
    vec(op, 2..if thorough { 60 } else { 40 }).boxed()
}

const POOL: [&str; 10] = ["p", "q", "r", "s", "!t", "u v", "é", "w@x", "", "k9"];

fn doc_of(a: &Option<Vec<String>>, b: &Option<Vec<String>>) -> Value {
    let mut d = json!({"_id": "\u{221A}"});
    let mk = |v: &Vec<String>| Value::from(v.iter().map(|i| json!({"_id": i})).collect::<Vec<_>>());
    if let Some(a) = a {
        d["a\u{266D}"] = mk(a);
    }
    if let Some(b) = b {
        d["b\u{266D}"] = mk(b);
    }
    d
}

pub fn run(ops: &[ChainOp]) -> CaseRes {
    let mut w = match World::new(1, &[None], &["C04x"]) {
        Ok(w) => w,
        Err(f) => return CaseRes { counters: Counters::new(), nontrivial: false, result: Err(f), log: vec![], steps: 0 },
    };
    let mut a: Option<Vec<String>> = Some(vec![]);
    let mut b: Option<Vec<String>> = None;
    // revision of a descriptor -> order submitted when it was created
    let mut made: BTreeMap<(String, String), Vec<String>> = BTreeMap::new();
    let mut steps = 0;
    let mut longest = 0usize;
    let mut emptied_and_refilled = false;
    let mut was_empty = false;
    let res = (|| -> R<()> {
        for op in ops {
            steps += 1;
            let mut submit = true;
            match op {
                ChainOp::Insert { arr, pos, id } => {
                    let used: Vec<String> = a.iter().flatten().chain(b.iter().flatten()).cloned().collect();
                    let free: Vec<&str> = POOL.iter().filter(|x| !used.iter().any(|u| u == *x)).cloned().collect();
                    if !free.is_empty() {
                        let t = if *arr { &mut b } else { &mut a };
                        let v = t.get_or_insert_with(Vec::new);
                        let at = crate::gen::sel(*pos, v.len() + 1);
                        v.insert(at, free[crate::gen::sel(*id, free.len())].to_string());
                    }
                }
                ChainOp::Remove { arr, pos } => {
                    if let Some(v) = if *arr { b.as_mut() } else { a.as_mut() } {
                        if !v.is_empty() {
                            let at = crate::gen::sel(*pos, v.len());
                            v.remove(at);
                        }
                    }
                }
                ChainOp::Rotate { arr } => {
                    if let Some(v) = if *arr { b.as_mut() } else { a.as_mut() } {
                        if v.len() > 1 {
                            v.rotate_left(1);
                        }
                    }
                }
                ChainOp::Reverse { arr } => {
                    if let Some(v) = if *arr { b.as_mut() } else { a.as_mut() } {
                        v.reverse();
                    }
                }
                ChainOp::Empty { arr } => {
                    if let Some(v) = if *arr { b.as_mut() } else { a.as_mut() } {
                        v.clear();
                    }
                }
                ChainOp::Refill { arr, n } => {
                    let used: Vec<String> = a.iter().flatten().chain(b.iter().flatten()).cloned().collect();
                    let free: Vec<&str> = POOL.iter().filter(|x| !used.iter().any(|u| u == *x)).cloned().collect();
                    let t = if *arr { &mut b } else { &mut a };
                    let v = t.get_or_insert_with(Vec::new);
                    for f in free.iter().take(*n as usize) {
                        v.push(f.to_string());
                    }
                }
                ChainOp::MoveAcross { pos, to } => {
                    if let (Some(x), Some(y)) = (a.as_mut(), b.as_mut()) {
                        if !x.is_empty() {
                            let e = x.remove(crate::gen::sel(*pos, x.len()));
                            let at = crate::gen::sel(*to, y.len() + 1);
                            y.insert(at, e);
                        } else if !y.is_empty() {
                            let e = y.remove(crate::gen::sel(*pos, y.len()));
                            x.push(e);
                        }
                    }
                }
                ChainOp::RemoveKey { arr } => {
                    if *arr {
                        b = None
                    } else {
                        a = None
                    }
                }
                ChainOp::Same => {}
                ChainOp::Bulk { arr, n } => {
                    let used: Vec<String> = a.iter().flatten().chain(b.iter().flatten()).cloned().collect();
                    let t = if *arr { &mut b } else { &mut a };
                    let v = t.get_or_insert_with(Vec::new);
                    let mut k = 0;
                    let mut added = 0;
                    while added < *n as usize {
                        let id = format!("e{:03}", k);
                        k += 1;
                        if !used.contains(&id) && !v.contains(&id) {
                            v.push(id);
                            added += 1;
                        }
                    }
                }
                ChainOp::Commit => {
                    submit = false;
                    w.op_commit(0, None)?;
                }
                ChainOp::Reopen => {
                    submit = false;
                    let _ = guard("commit", || w.reps[0].m.commit(None))?;
                    w.op_reopen(0)?;
                }
                ChainOp::Snapshot => {
                    submit = false;
                    w.op_snapshot(0)?;
                }
            }
            let doc = doc_of(&a, &b);
            if submit {
                w.log.push(format!("update {}", doc));
                let dm = doc.as_object().unwrap().clone();
                let r = guard("update", || w.reps[0].m.update(dm))?;
                if let Err(e) = r {
                    return viol("C16", format!("update failed: {}", e));
                }
                for (key, cur) in [("^\u{221A}@a\u{266D}", &a), ("^\u{221A}@b\u{266D}", &b)] {
                    if let Some(cur) = cur {
                        if let Ok(wr) = guard("get_winner", || w.reps[0].m.get_winner(key))? {
                            if !crate::model::rev_is_deleted(&wr) {
                                made.entry((key.to_string(), wr)).or_insert_with(|| cur.clone());
                            }
                        }
                        if cur.is_empty() {
                            was_empty = true;
                        } else if was_empty {
                            emptied_and_refilled = true;
                        }
                    }
                }
            }
            // read == submitted
            let back = read_doc(&w.reps[0].m)?;
            match back {
                Ok(bk) => {
                    if !crate::model::eq_mod_id(&doc, &bk, true) {
                        return viol("C16", format!("document read differs from the arrays submitted:\n submitted {}\n read      {}", doc, bk));
                    }
                }
                Err(e) => {
                    if steps > 0 && submit {
                        return viol("C16", format!("read failed: {}", e));
                    }
                }
            }
            // every stored version reconstructs to what was submitted
            for key in ["^\u{221A}@a\u{266D}", "^\u{221A}@b\u{266D}"] {
                let Ok(wr) = guard("get_winner", || w.reps[0].m.get_winner(key))? else { continue };
                let mut cur = Some(wr);
                let mut len = 0;
                while let Some(r) = cur {
                    len += 1;
                    if let Some(want) = made.get(&(key.to_string(), r.clone())) {
                        match leaf_order(&w.reps[0].m, key, &r)? {
                            Ok(o) => {
                                let got: Vec<String> = o.iter().filter_map(|x| x.as_str().map(|s| s.to_string())).collect();
                                if &got != want {
                                    return viol("C16", format!("stored version {} of {} reconstructs to {:?}, submitted was {:?}", r, key, got, want));
                                }
                            }
                            Err(e) => return viol("C16", format!("stored version {} of {} cannot be reconstructed: {}", r, key, e)),
                        }
                    }
                    cur = guard("get_parent_revision", || w.reps[0].m.get_parent_revision(key, &r))?.unwrap_or(None);
                }
                longest = longest.max(len);
            }
        }
        Ok(())
    })();
    let mut cnt = std::mem::take(&mut w.cnt);
    if longest >= 5 {
        *cnt.entry("chains_ge5").or_insert(0) += 1;
    }
    if emptied_and_refilled {
        *cnt.entry("emptied_and_refilled").or_insert(0) += 1;
    }
    CaseRes { counters: cnt, nontrivial: longest >= 5 && emptied_and_refilled, result: res, log: std::mem::take(&mut w.log), steps }
}
