#!/bin/bash
# usage: check.sh <ID> <quick|thorough> [--replay FILE]
# exit 0 = property held on everything explored; 1 = VIOLATION line printed; 2 = inconclusive (build failure, watchdog)
ID="$1"; TIER="${2:-${VERIF_TIER:-quick}}"; shift; shift
export CARGO_NET_OFFLINE=true
cd /verif/harness || exit 2
if ! cargo build --release --offline >/verif/.build.log 2>&1; then
  echo "INCONCLUSIVE: harness does not build against /repo (see /verif/.build.log)"; tail -20 /verif/.build.log; exit 2
fi
exec ./target/release/mverif check "$ID" --tier "$TIER" --seed "${VERIF_SEED:-20260925}" "$@"
