#!/bin/bash
# usage: check.sh <ID> <quick|thorough> [--replay FILE]
# exit 0 = property held on everything explored; 1 = VIOLATION line printed; 2 = inconclusive (build failure, watchdog)
ID="$1"; TIER="${2:-${VERIF_TIER:-quick}}"; shift; shift
ROOT="$(cd "$(dirname "$0")" && pwd)"
export VERIF_ROOT="$ROOT"
export CARGO_NET_OFFLINE=true
cd "$ROOT/harness" || exit 2
if ! cargo build --release --offline >"$ROOT/.build.log" 2>&1; then
  echo "INCONCLUSIVE: harness does not build against /repo (see $ROOT/.build.log)"; tail -20 "$ROOT/.build.log"; exit 2
fi
if [ "$TIER" = thorough ]; then
  # coverage-guided supplement; failure to build it only skips that part
  (cd "$ROOT/fuzz" && cp "$ROOT/harness/Cargo.lock" . 2>/dev/null; cargo +nightly fuzz build --fuzz-dir "$ROOT/fuzz" -s none history >"$ROOT/.fuzzbuild.log" 2>&1) || echo "note: fuzz target did not build (see $ROOT/.fuzzbuild.log); fuzz part will be skipped"
fi
exec ./target/release/mverif check "$ID" --tier "$TIER" --seed "${VERIF_SEED:-20260925}" "$@"
