#!/bin/bash
# runs every check's thorough tier in sequence (meant for `vp run -- ./thorough_all.sh`)
cd "$(dirname "$0")"
for p in C01 C02 C03 C04 C05 C06 C07 C08 C09 C10 C11 C12 C13 C14 C15 C16 C17 C18 C19; do
  echo "=== $p $(date +%T)"; ./check.sh $p thorough 2>&1 | cut -c1-1500; echo "rc=$?"
done
