#!/usr/bin/env python3
"""Regenerates MANIFEST.json from the table below (single source of truth for the registered checks)."""
import json,subprocess
hooks=subprocess.check_output(['git','-C','/repo','log','--format=%H','--grep=verif-hooks']).decode().split()
T={
 'C01':('exploration','stateful history generation (proptest) + generated delivery plan; metamorphic: all replicas/fresh copy expose equal state','§6 C01'),
 'C03':('exploration','stateful history generation with rich JSON; round trip commit -> reopen, full observation compared','§6 C03'),
 'C04':('exploration','stateful history generation; round trip update -> read against the submitted document, idempotence, empty commit','§6 C04'),
 'C05':('exploration','generated and exhaustively enumerated revision trees under all/many insertion orders + histories; differential against a reference rule rebuilt from raw block files','§6 C05'),
 'C06':('exploration','exhaustive enumeration of merge_arrays on duplicate-free pairs/triples + histories; invariant over shown arrays vs union of live versions rebuilt by a reference script applier','§6 C06'),
 'C07':('exploration','conflict-biased history generation; oracle on resolve_as outcome + convergence after exchange','§6 C07'),
 'C08':('exploration','history generation incl. low-level calls; every op and getter under panic guard and deadlock watchdog','§6 C08'),
 'C11':('exploration','history generation; storage invariants (name=SHA-256, append-only, byte identity) after every step','§6 C11'),
 'C12':('exploration','history generation; metamorphic: document before/after maintenance operations','§6 C12'),
 'C13':('exploration','history generation; commit-graph invariants from raw block files vs API','§6 C13'),
 'C14':('exploration','history generation; time travel to recorded head sets compared with recorded observations','§6 C14'),
 'C15':('exploration','history generation; unstage / export / replay round trips and refusal of reload with staged changes','§6 C15'),
 'C02':('exploration','history generation + permuted one-file-at-a-time delivery (every prefix; all permutations for small graphs); differential against a reference causal closure and metamorphic incremental-vs-reload','§6 C02'),
 'C09':('fault_enumeration','history generation; for every commit/meld every write boundary (crash snapshot) and every single/repeated write failure is enumerated; oracle: closure equivalence, order pack-before-block, retry equals fault-free twin','§6 C09'),
 'C10':('fault_enumeration','history generation; generated and swept faults on stored items (bit flips, truncation, deletion, junk injection); differential against the reference closure of intact items','§6 C10'),
 'C16':('exploration','exhaustive enumeration of array pairs (diff/patch round trip, two appliers) + generated version chains under cache capacities 1/2/3/16','§6 C16'),
 'C17':('exploration','generated key/value operation sequences against a write-once map model over 12 backend stacks + same generated history over every stack (differential)','§6 C17'),
 'C18':('exploration','generated histories re-executed in child processes under different pool sizes / cache capacities / listing orders / hash seeds; metamorphic: identical state digests','§6 C18'),
 'C19':('exploration','generated revision pools via the Revision API against a reference identifier function and order (laws over triples) + history-level parse/print round trip','§6 C19'),
}
NA={}
import sys
sys.path.insert(0,'/verif')
try:
    from manifest_extra import T as T2, NA as NA2
    T.update(T2); NA=NA2
except ImportError:
    pass
allp=[json.loads(l)['id'] for l in open('/verif/properties.jsonl')]
checks=[]
for p in allp:
    if p in T:
        lvl,tech,ref=T[p]
        checks.append({
          'property_id':p,'quick_cmd':f'./check.sh {p} quick','thorough_cmd':f'./check.sh {p} thorough',
          'evidence_file':f'/verif/evidence/{p}.json','replay_cmd_template':f'./check.sh {p} quick --replay {{path}}',
          'engine':'mverif','level_claimed':{'category':lvl,'text':tech+'; held on everything explored, no claim beyond the generated cases','design_ref':ref},
          'level_note':'trusts: the harness reference models (harness/src/model.rs), proptest generation/shrinking, serde_json, sha2; hooks are read-only',
          'technique':'property-based testing: '+tech})
na=[{'property_id':p,'reason':NA.get(p,'check not built yet in this session (work in progress)')} for p in allp if p not in T]
m={'version':1,'setup_cmd':'./setup.sh',
 'hooks':{'guard':'cargo feature verif-hooks','enable':'harness/Cargo.toml depends on melda = { path = "/repo", features = ["verif-hooks", ...] }','baseline_off_cmd':'cd /repo && cargo test --workspace --no-fail-fast --offline','source_commits':hooks,'add_only':True},
 'engines':[{'name':'mverif','path':'/verif/harness','serves_properties':sorted(T),'kind_free_text':'Rust binary: proptest-driven stateful history generator, op interpreter with per-property oracles, reference models, sharded over worker processes'}],
 'checks':checks,'not_applicable':na,
 'notes':'All checks: exit 0 held / exit 1 + VIOLATION line / exit 2 inconclusive. Known findings in /verif/known_findings.txt: 17 fixed: entries (repaired in /repo by fix: commits, suppress nothing) and one known: entry (F17, property C03: content nested >= 127 levels; the C03 check prints KNOWN-FINDING for it and exits 0).'}
json.dump(m,open('/verif/MANIFEST.json','w'),indent=1)
print(len(checks),'checks',len(na),'n/a')
