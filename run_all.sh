#!/bin/bash
# runs every check (tier $1, default quick) once per seed given in $2.. (default: the default seed); prints rc and summary line
cd "$(dirname "$0")"
TIER=${1:-quick}; shift
SEEDS="${@:-20260925}"
fail=0
for seed in $SEEDS; do
  for p in C01 C02 C03 C04 C05 C06 C07 C08 C09 C10 C11 C12 C13 C14 C15 C16 C17 C18 C19; do
    out=$(VERIF_SEED=$seed ./check.sh $p $TIER 2>&1); rc=$?
    echo "seed=$seed $p rc=$rc $(echo "$out" | grep -E " $TIER:" | cut -c1-110)"
    if [ $rc -ne 0 ]; then fail=1; echo "$out" | grep -E "VIOLATION|INCONCLUSIVE" -A2 | cut -c1-700; fi
  done
done
exit $fail
