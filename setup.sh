#!/bin/bash
# Offline build of the verification harness against /repo's current working tree.
set -e
ROOT="$(cd "$(dirname "$0")" && pwd)"
cd "$ROOT/harness"
export CARGO_NET_OFFLINE=true
cargo build --release --offline 2>&1 | tail -3
